package main

// Mode `export2` (C11): exported state ↔ genesis validation ↔ import, tied to the Lean definitions of
// lean/MinterModel/Genesis.lean (`verifyState`, `exportInvariants`, `importState`).
//
// For every export the mode takes:
//  (1) the real AppState.Verify() must accept it, and `verifyState` of the model must answer `ok` on the same data
//      (Q verify); the structural invariants the C11 theorems assume must hold on it (Q wellformed);
//  (2) mutated exports (one perturbation each) go to the real Verify() and to `verifyState`: the verdicts must agree
//      (Q verifyagree).  For mutants both accept, the model's invariants and a real import say whether the validator has a gap;
//  (3) the round trip of the `export` mode (import into a fresh node, re-export, canonical dumps equal up to the recomputed
//      stake values = known finding F15 `stake-recalculation-on-import`, both chains continued with the same blocks), and the
//      model's `importState` is compared with the re-export (Q importagrees);
//  (5) an independent cross-check of every export (of the history node and of the imported node) against the node's own
//      getters, the ones the API serves: export, import and re-export all go through the same Export code, so what that
//      code leaves out is invisible to (3).  For every address the history knows (the world's accounts, multisig wallets of
//      the genesis and those created by CreateMultisig transactions, every address that occurs in the data of a generated
//      transaction, candidate owner/reward/control addresses, coin owners, order owners, the zero and the burn address,
//      and every exported account) nonce, positive balances, multisig data and stake lock must be what the exported
//      genesis says (an account missing from it must have none of them); every coin id up to the coin counter, every
//      candidate, every pool between known coins and every check the history redeemed likewise (export-misses-…).
//  (4) what the exported states contained (pending stake updates, locked tokens, orders, unused multisig accounts, used checks,
//      pending votes, deleted candidates, …) is counted in Notes.

import (
	"fmt"
	"io/ioutil"
	"math/big"
	"math/rand"
	"os"
	"reflect"
	"sort"
	"strings"
	"time"

	"github.com/MinterTeam/minter-go-node/coreV2/check"
	"github.com/MinterTeam/minter-go-node/coreV2/state/accounts"
	tx "github.com/MinterTeam/minter-go-node/coreV2/transaction"
	"github.com/MinterTeam/minter-go-node/coreV2/types"
)

// ---------------------------------------------------------------------------------------------------------------
// token form of a genesis (parsed by Genesis.ofToken)

type tokenExtras struct {
	NCoins      uint32
	Reward      string
	SafeReward  string
	TotalStakes string
}

func tokSafe(s string) string {
	r := strings.NewReplacer(" ", "_", ",", "_", ";", "_", ":", "_", "\t", "_", "\n", "_", "/", "_", "=", "_")
	return r.Replace(s)
}

func genesisToken(st *types.AppState, x tokenExtras) string {
	var sb strings.Builder
	rec := func(tag string, fields ...string) {
		sb.WriteString(tag)
		sb.WriteByte(':')
		sb.WriteString(strings.Join(fields, ","))
		sb.WriteByte(';')
	}
	u := func(v uint64) string { return fmt.Sprint(v) }
	price := fmt.Sprintf("%d/%s/%s/%s/%v", int64(st.PrevReward.Time), tokSafe(st.PrevReward.AmountBIP), tokSafe(st.PrevReward.AmountUSDT), tokSafe(st.PrevReward.Reward), st.PrevReward.Off)
	rec("H", st.TotalSlashed, u(st.NextOrderID), u(st.MaxGas), fmt.Sprint(x.NCoins), x.Reward, x.SafeReward, tokSafe(st.Emission), price, x.TotalStakes)
	for _, v := range st.Validators {
		ab := "nil"
		if v.AbsentTimes != nil {
			ab = "b"
			for i := 0; i < int(v.AbsentTimes.Size()); i++ {
				if v.AbsentTimes.GetIndex(i) {
					ab += "1"
				} else {
					ab += "0"
				}
			}
		}
		rec("V", hexs(v.PubKey[:]), v.TotalBipStake, v.AccumReward, ab)
	}
	for _, a := range st.Accounts {
		ms := "-"
		if a.MultisigData != nil {
			parts := []string{u(a.MultisigData.Threshold)}
			for i, ad := range a.MultisigData.Addresses {
				w := uint64(0)
				if i < len(a.MultisigData.Weights) {
					w = a.MultisigData.Weights[i]
				}
				parts = append(parts, fmt.Sprintf("%s=%d", hexs(ad[:]), w))
			}
			ms = strings.Join(parts, "/")
		}
		rec("A", hexs(a.Address[:]), u(a.Nonce), u(a.LockStakeUntilBlock), ms)
		for _, b := range a.Balance {
			rec("B", hexs(a.Address[:]), u(b.Coin), b.Value)
		}
	}
	for _, c := range st.Coins {
		owner := "-"
		if c.OwnerAddress != nil {
			owner = hexs(c.OwnerAddress[:])
		}
		rec("C", u(c.ID), tokSafe(c.Symbol.String()), u(c.Version), c.Volume, c.Reserve, u(c.Crr), c.MaxSupply, owner, fmt.Sprint(c.Mintable), fmt.Sprint(c.Burnable))
	}
	for _, c := range st.Candidates {
		rec("K", u(c.ID), hexs(c.PubKey[:]), hexs(c.OwnerAddress[:]), hexs(c.RewardAddress[:]), hexs(c.ControlAddress[:]), u(c.Commission), u(c.Status), u(c.JailedUntil), u(c.LastEditCommissionHeight), c.TotalBipStake)
		for _, s := range c.Stakes {
			rec("S", hexs(s.Owner[:]), u(s.Coin), s.Value, s.BipValue)
		}
		for _, s := range c.Updates {
			rec("U", hexs(s.Owner[:]), u(s.Coin), s.Value, s.BipValue)
		}
	}
	for _, w := range st.Waitlist {
		rec("W", u(w.CandidateID), hexs(w.Owner[:]), u(w.Coin), w.Value)
	}
	for _, f := range st.FrozenFunds {
		ck := "-"
		if f.CandidateKey != nil {
			ck = hexs(f.CandidateKey[:])
		}
		rec("F", u(f.Height), hexs(f.Address[:]), ck, u(f.CandidateID), u(f.Coin), f.Value, u(f.MoveToCandidateID))
	}
	for _, p := range st.Pools {
		rec("P", u(p.Coin0), u(p.Coin1), u(p.ID), p.Reserve0, p.Reserve1)
		for _, o := range p.Orders {
			rec("O", u(o.ID), fmt.Sprint(o.IsSale), o.Volume0, o.Volume1, hexs(o.Owner[:]), u(o.Height))
		}
	}
	for _, c := range st.UsedChecks {
		rec("X", tokSafe(string(c)))
	}
	for _, h := range st.HaltBlocks {
		rec("L", u(h.Height), hexs(h.CandidateKey[:]))
	}
	for _, cv := range st.CommissionVotes {
		for _, pk := range cv.Votes {
			rec("CV", u(cv.Height), hexs(pk[:]), commissionDigest(cv.Commission))
		}
	}
	for _, uv := range st.UpdateVotes {
		for _, pk := range uv.Votes {
			rec("UV", u(uv.Height), hexs(pk[:]), tokSafe(uv.Version))
		}
	}
	for _, b := range st.BlockListCandidates {
		rec("BL", hexs(b[:]))
	}
	for _, d := range st.DeletedCandidates {
		rec("D", u(d.ID), hexs(d.PubKey[:]))
	}
	cf := commissionFields(st.Commission)
	keys := make([]string, 0, len(cf))
	for k := range cf {
		keys = append(keys, k)
	}
	sort.Strings(keys)
	for _, k := range keys {
		rec("CM", k, tokSafe(cf[k]))
	}
	tok := sb.String()
	if strings.ContainsAny(tok, " \t\n") {
		tok = strings.NewReplacer(" ", "_", "\t", "_", "\n", "_").Replace(tok)
	}
	return tok
}

// verifyVerdict runs the real AppState.Verify() and names the check that failed (by its error text).
func verifyVerdict(st *types.AppState) (verdict string, msg string) {
	defer func() {
		if r := recover(); r != nil {
			verdict, msg = "panic", fmt.Sprint(r)
		}
	}()
	err := st.Verify()
	if err == nil {
		return "ok", ""
	}
	m := err.Error()
	pre := []struct{ p, name string }{
		{"total slashed is not valid", "slashed"},
		{"there should be at least one validator", "no-validators"},
		{"duplicated validator", "dup-validator"},
		{"candidate for validator", "validator-not-candidate"},
		{"total bip stake of validator", "validator-total"},
		{"accum reward of validator", "validator-accum"},
		{"absent times of validator", "validator-absent"},
		{"duplicated account", "dup-account"},
		{"not valid balance", "balance"},
		{"duplicated stake", "dup-stake"},
		{"base coin should not be declared", "base-declared"},
		{"duplicated coin", "dup-coin"},
		{"wrong token", "token-volume"},
		{"wrong coin", "coin-volume"},
		{"wrong waitlist value", "waitlist-value"},
		{"wrong frozen fund value", "frozen-value"},
		{"wrong used check size", "check-size"},
		{"encoding/hex", "check-hex"},
	}
	for _, e := range pre {
		if strings.HasPrefix(m, e.p) {
			return e.name, m
		}
	}
	if strings.HasPrefix(m, "coin ") && strings.HasSuffix(m, "not found") {
		return "coin-not-found", m
	}
	return "other", m
}

// ---------------------------------------------------------------------------------------------------------------
// mutations

func copyState(st *types.AppState) types.AppState {
	c := *st
	c.Validators = append([]types.Validator(nil), st.Validators...)
	c.Candidates = append([]types.Candidate(nil), st.Candidates...)
	for i := range c.Candidates {
		c.Candidates[i].Stakes = append([]types.Stake(nil), st.Candidates[i].Stakes...)
		c.Candidates[i].Updates = append([]types.Stake(nil), st.Candidates[i].Updates...)
	}
	c.Waitlist = append([]types.Waitlist(nil), st.Waitlist...)
	c.Pools = append([]types.Pool(nil), st.Pools...)
	for i := range c.Pools {
		c.Pools[i].Orders = append([]types.Order(nil), st.Pools[i].Orders...)
	}
	c.Accounts = append([]types.Account(nil), st.Accounts...)
	for i := range c.Accounts {
		c.Accounts[i].Balance = append([]types.Balance(nil), st.Accounts[i].Balance...)
	}
	c.Coins = append([]types.Coin(nil), st.Coins...)
	c.FrozenFunds = append([]types.FrozenFund(nil), st.FrozenFunds...)
	c.UsedChecks = append([]types.UsedCheck(nil), st.UsedChecks...)
	c.HaltBlocks = append([]types.HaltBlock(nil), st.HaltBlocks...)
	c.DeletedCandidates = append([]types.DeletedCandidate(nil), st.DeletedCandidates...)
	c.BlockListCandidates = append([]types.Pubkey(nil), st.BlockListCandidates...)
	return c
}

func addStr(s string, d int64) string {
	v, ok := new(big.Int).SetString(s, 10)
	if !ok {
		return s
	}
	return v.Add(v, big.NewInt(d)).String()
}

func negStr(s string) string {
	v, ok := new(big.Int).SetString(s, 10)
	if !ok {
		return s
	}
	return v.Neg(v).String()
}

func pm(r *rand.Rand) int64 {
	if r.Intn(2) == 0 {
		return 1
	}
	return -1
}

func missingCoin(st *types.AppState, r *rand.Rand) uint64 {
	for {
		id := uint64(1 + r.Intn(5000))
		found := false
		for _, c := range st.Coins {
			if c.ID == id {
				found = true
			}
		}
		if !found {
			return id
		}
	}
}

func coinIndex(st *types.AppState, id uint64) int {
	for i, c := range st.Coins {
		if c.ID == id {
			return i
		}
	}
	return -1
}

// adjustVolume changes the recorded volume of coin id by d (no-op for the base coin, which has no registry entry).
func adjustVolume(st *types.AppState, id uint64, d *big.Int) {
	if i := coinIndex(st, id); i >= 0 {
		v, _ := new(big.Int).SetString(st.Coins[i].Volume, 10)
		st.Coins[i].Volume = v.Add(v, d).String()
	}
}

var badAmounts = []string{"", "abc", "-1", "1e5", "0x10", " 7", "-0"}

type mutation struct {
	name string
	f    func(st *types.AppState, r *rand.Rand) bool // false: not applicable to this export
}

func pickBalance(st *types.AppState, r *rand.Rand, base bool) (int, int, bool) {
	var cand [][2]int
	for i, a := range st.Accounts {
		for j, b := range a.Balance {
			if (b.Coin == 0) == base {
				cand = append(cand, [2]int{i, j})
			}
		}
	}
	if len(cand) == 0 {
		return 0, 0, false
	}
	c := cand[r.Intn(len(cand))]
	return c[0], c[1], true
}

func pickStake(st *types.AppState, r *rand.Rand, updates bool, pred func(types.Stake) bool) (int, int, bool) {
	var cand [][2]int
	for i, c := range st.Candidates {
		l := c.Stakes
		if updates {
			l = c.Updates
		}
		for j, s := range l {
			if pred == nil || pred(s) {
				cand = append(cand, [2]int{i, j})
			}
		}
	}
	if len(cand) == 0 {
		return 0, 0, false
	}
	c := cand[r.Intn(len(cand))]
	return c[0], c[1], true
}

func pickOrder(st *types.AppState, r *rand.Rand) (int, int, bool) {
	var cand [][2]int
	for i, p := range st.Pools {
		for j := range p.Orders {
			cand = append(cand, [2]int{i, j})
		}
	}
	if len(cand) == 0 {
		return 0, 0, false
	}
	c := cand[r.Intn(len(cand))]
	return c[0], c[1], true
}

func mutations() []mutation {
	return []mutation{
		{"balance-custom+-1", func(st *types.AppState, r *rand.Rand) bool {
			i, j, ok := pickBalance(st, r, false)
			if !ok {
				return false
			}
			st.Accounts[i].Balance[j].Value = addStr(st.Accounts[i].Balance[j].Value, pm(r))
			return true
		}},
		{"balance-base+-1", func(st *types.AppState, r *rand.Rand) bool {
			i, j, ok := pickBalance(st, r, true)
			if !ok {
				return false
			}
			st.Accounts[i].Balance[j].Value = addStr(st.Accounts[i].Balance[j].Value, pm(r))
			return true
		}},
		{"balance-transfer-neutral", func(st *types.AppState, r *rand.Rand) bool { // a valid state: one unit moves between two holders of a coin
			i, j, ok := pickBalance(st, r, r.Intn(2) == 0)
			if !ok {
				return false
			}
			coin := st.Accounts[i].Balance[j].Coin
			for k := range st.Accounts {
				if k == i {
					continue
				}
				for l := range st.Accounts[k].Balance {
					if st.Accounts[k].Balance[l].Coin == coin {
						st.Accounts[i].Balance[j].Value = addStr(st.Accounts[i].Balance[j].Value, -1)
						st.Accounts[k].Balance[l].Value = addStr(st.Accounts[k].Balance[l].Value, 1)
						return true
					}
				}
			}
			return false
		}},
		{"balance-bad-string", func(st *types.AppState, r *rand.Rand) bool {
			i, j, ok := pickBalance(st, r, r.Intn(2) == 0)
			if !ok {
				return false
			}
			st.Accounts[i].Balance[j].Value = badAmounts[r.Intn(len(badAmounts))]
			return true
		}},
		{"balance-coin-missing", func(st *types.AppState, r *rand.Rand) bool {
			i, j, ok := pickBalance(st, r, r.Intn(2) == 0)
			if !ok {
				return false
			}
			st.Accounts[i].Balance[j].Coin = missingCoin(st, r)
			return true
		}},
		{"coin-volume+-1", func(st *types.AppState, r *rand.Rand) bool {
			if len(st.Coins) == 0 {
				return false
			}
			i := r.Intn(len(st.Coins))
			st.Coins[i].Volume = addStr(st.Coins[i].Volume, pm(r))
			return true
		}},
		{"coin-volume-bad-string", func(st *types.AppState, r *rand.Rand) bool {
			if len(st.Coins) == 0 {
				return false
			}
			st.Coins[r.Intn(len(st.Coins))].Volume = badAmounts[r.Intn(len(badAmounts))]
			return true
		}},
		{"coin-max-supply-below-volume", func(st *types.AppState, r *rand.Rand) bool {
			if len(st.Coins) == 0 {
				return false
			}
			i := r.Intn(len(st.Coins))
			st.Coins[i].MaxSupply = addStr(st.Coins[i].Volume, -1)
			return true
		}},
		{"coin-reserve+-1", func(st *types.AppState, r *rand.Rand) bool {
			var idx []int
			for i, c := range st.Coins {
				if c.Crr != 0 {
					idx = append(idx, i)
				}
			}
			if len(idx) == 0 {
				return false
			}
			i := idx[r.Intn(len(idx))]
			st.Coins[i].Reserve = addStr(st.Coins[i].Reserve, pm(r))
			return true
		}},
		{"coin-duplicated", func(st *types.AppState, r *rand.Rand) bool {
			if len(st.Coins) == 0 {
				return false
			}
			st.Coins = append(st.Coins, st.Coins[r.Intn(len(st.Coins))])
			return true
		}},
		{"coin-id-collides", func(st *types.AppState, r *rand.Rand) bool {
			if len(st.Coins) < 2 {
				return false
			}
			i := r.Intn(len(st.Coins))
			j := (i + 1 + r.Intn(len(st.Coins)-1)) % len(st.Coins)
			st.Coins[j].ID = st.Coins[i].ID
			return true
		}},
		{"coin-symbol-duplicated", func(st *types.AppState, r *rand.Rand) bool {
			if len(st.Coins) < 2 {
				return false
			}
			i := r.Intn(len(st.Coins))
			j := (i + 1 + r.Intn(len(st.Coins)-1)) % len(st.Coins)
			st.Coins[j].Symbol, st.Coins[j].Version = st.Coins[i].Symbol, st.Coins[i].Version
			return true
		}},
		{"coin-symbol-is-base", func(st *types.AppState, r *rand.Rand) bool {
			if len(st.Coins) == 0 {
				return false
			}
			st.Coins[r.Intn(len(st.Coins))].Symbol = types.GetBaseCoin()
			return true
		}},
		{"coin-crr-to-zero", func(st *types.AppState, r *rand.Rand) bool { // a reserve coin declared a token: its stakes drop out of the sum
			var idx []int
			for i, c := range st.Coins {
				if c.Crr != 0 {
					idx = append(idx, i)
				}
			}
			if len(idx) == 0 {
				return false
			}
			st.Coins[idx[r.Intn(len(idx))]].Crr = 0
			return true
		}},
		{"token-crr-to-nonzero", func(st *types.AppState, r *rand.Rand) bool {
			var idx []int
			for i, c := range st.Coins {
				if c.Crr == 0 {
					idx = append(idx, i)
				}
			}
			if len(idx) == 0 {
				return false
			}
			st.Coins[idx[r.Intn(len(idx))]].Crr = 50
			return true
		}},
		{"pool-reserve+-1", func(st *types.AppState, r *rand.Rand) bool {
			if len(st.Pools) == 0 {
				return false
			}
			i := r.Intn(len(st.Pools))
			if r.Intn(2) == 0 {
				st.Pools[i].Reserve0 = addStr(st.Pools[i].Reserve0, pm(r))
			} else {
				st.Pools[i].Reserve1 = addStr(st.Pools[i].Reserve1, pm(r))
			}
			return true
		}},
		{"pool-reserve-zero-consistent", func(st *types.AppState, r *rand.Rand) bool { // reserve 0, the coin's volume reduced accordingly
			if len(st.Pools) == 0 {
				return false
			}
			i := r.Intn(len(st.Pools))
			if r.Intn(2) == 0 {
				d, _ := new(big.Int).SetString(st.Pools[i].Reserve0, 10)
				adjustVolume(st, st.Pools[i].Coin0, d.Neg(d))
				st.Pools[i].Reserve0 = "0"
			} else {
				d, _ := new(big.Int).SetString(st.Pools[i].Reserve1, 10)
				adjustVolume(st, st.Pools[i].Coin1, d.Neg(d))
				st.Pools[i].Reserve1 = "0"
			}
			return true
		}},
		{"pool-reserve-negative-consistent", func(st *types.AppState, r *rand.Rand) bool {
			if len(st.Pools) == 0 {
				return false
			}
			i := r.Intn(len(st.Pools))
			d, _ := new(big.Int).SetString(st.Pools[i].Reserve1, 10)
			adjustVolume(st, st.Pools[i].Coin1, new(big.Int).Mul(d, big.NewInt(-2)))
			st.Pools[i].Reserve1 = negStr(st.Pools[i].Reserve1)
			return true
		}},
		{"pool-duplicated", func(st *types.AppState, r *rand.Rand) bool {
			if len(st.Pools) == 0 {
				return false
			}
			st.Pools = append(st.Pools, st.Pools[r.Intn(len(st.Pools))])
			return true
		}},
		{"pool-coin-missing-consistent", func(st *types.AppState, r *rand.Rand) bool { // pool over a coin that is not registered (base side untouched)
			var idx []int
			for i, p := range st.Pools {
				if p.Coin0 == 0 && len(p.Orders) == 0 {
					idx = append(idx, i)
				}
			}
			if len(idx) == 0 {
				return false
			}
			i := idx[r.Intn(len(idx))]
			d, _ := new(big.Int).SetString(st.Pools[i].Reserve1, 10)
			adjustVolume(st, st.Pools[i].Coin1, d.Neg(d))
			st.Pools[i].Coin1 = missingCoin(st, r)
			return true
		}},
		{"order-volume+-1", func(st *types.AppState, r *rand.Rand) bool {
			i, j, ok := pickOrder(st, r)
			if !ok {
				return false
			}
			if r.Intn(2) == 0 {
				st.Pools[i].Orders[j].Volume0 = addStr(st.Pools[i].Orders[j].Volume0, pm(r))
			} else {
				st.Pools[i].Orders[j].Volume1 = addStr(st.Pools[i].Orders[j].Volume1, pm(r))
			}
			return true
		}},
		{"order-side-flipped", func(st *types.AppState, r *rand.Rand) bool {
			i, j, ok := pickOrder(st, r)
			if !ok {
				return false
			}
			st.Pools[i].Orders[j].IsSale = !st.Pools[i].Orders[j].IsSale
			return true
		}},
		{"order-id-duplicated", func(st *types.AppState, r *rand.Rand) bool {
			i, j, ok := pickOrder(st, r)
			if !ok {
				return false
			}
			o := st.Pools[i].Orders[j]
			st.Pools[i].Orders = append(st.Pools[i].Orders, o)
			coin, vol := st.Pools[i].Coin0, o.Volume0
			if o.IsSale {
				coin, vol = st.Pools[i].Coin1, o.Volume1
			}
			d, _ := new(big.Int).SetString(vol, 10)
			adjustVolume(st, coin, d)
			return true
		}},
		{"next-order-id-below-orders", func(st *types.AppState, r *rand.Rand) bool {
			if _, _, ok := pickOrder(st, r); !ok {
				return false
			}
			st.NextOrderID = uint64(r.Intn(2))
			return true
		}},
		{"stake-value+-1", func(st *types.AppState, r *rand.Rand) bool {
			i, j, ok := pickStake(st, r, false, nil)
			if !ok {
				return false
			}
			st.Candidates[i].Stakes[j].Value = addStr(st.Candidates[i].Stakes[j].Value, pm(r))
			return true
		}},
		{"stake-custom-value+-1", func(st *types.AppState, r *rand.Rand) bool {
			i, j, ok := pickStake(st, r, false, func(s types.Stake) bool { return s.Coin != 0 })
			if !ok {
				return false
			}
			st.Candidates[i].Stakes[j].Value = addStr(st.Candidates[i].Stakes[j].Value, pm(r))
			return true
		}},
		{"stake-bip-value+-1", func(st *types.AppState, r *rand.Rand) bool {
			i, j, ok := pickStake(st, r, false, nil)
			if !ok {
				return false
			}
			st.Candidates[i].Stakes[j].BipValue = addStr(st.Candidates[i].Stakes[j].BipValue, pm(r))
			return true
		}},
		{"stake-negative-consistent", func(st *types.AppState, r *rand.Rand) bool { // a negative stake, the coin's volume reduced accordingly
			i, j, ok := pickStake(st, r, false, nil)
			if !ok {
				return false
			}
			s := &st.Candidates[i].Stakes[j]
			d, _ := new(big.Int).SetString(s.Value, 10)
			adjustVolume(st, s.Coin, new(big.Int).Mul(d, big.NewInt(-2)))
			s.Value = negStr(s.Value)
			return true
		}},
		{"stake-duplicated", func(st *types.AppState, r *rand.Rand) bool {
			i, j, ok := pickStake(st, r, false, nil)
			if !ok {
				return false
			}
			s := st.Candidates[i].Stakes[j]
			st.Candidates[i].Stakes = append(st.Candidates[i].Stakes, s)
			d, _ := new(big.Int).SetString(s.Value, 10)
			adjustVolume(st, s.Coin, d)
			return true
		}},
		{"stake-coin-missing", func(st *types.AppState, r *rand.Rand) bool {
			i, j, ok := pickStake(st, r, false, nil)
			if !ok {
				return false
			}
			s := &st.Candidates[i].Stakes[j]
			d, _ := new(big.Int).SetString(s.Value, 10)
			adjustVolume(st, s.Coin, d.Neg(d))
			s.Coin = missingCoin(st, r)
			return true
		}},
		{"stake-in-token-consistent", func(st *types.AppState, r *rand.Rand) bool { // a stake held in a token, both volumes adjusted
			var toks []int
			for i, c := range st.Coins {
				if c.Crr == 0 {
					toks = append(toks, i)
				}
			}
			i, j, ok := pickStake(st, r, false, nil)
			if !ok || len(toks) == 0 {
				return false
			}
			s := &st.Candidates[i].Stakes[j]
			d, _ := new(big.Int).SetString(s.Value, 10)
			adjustVolume(st, s.Coin, new(big.Int).Neg(d))
			s.Coin = st.Coins[toks[r.Intn(len(toks))]].ID
			adjustVolume(st, s.Coin, d)
			return true
		}},
		{"update-value+-1", func(st *types.AppState, r *rand.Rand) bool {
			i, j, ok := pickStake(st, r, true, nil)
			if !ok {
				return false
			}
			st.Candidates[i].Updates[j].Value = addStr(st.Candidates[i].Updates[j].Value, pm(r))
			return true
		}},
		{"update-coin-missing-consistent", func(st *types.AppState, r *rand.Rand) bool {
			i, j, ok := pickStake(st, r, true, nil)
			if !ok {
				return false
			}
			s := &st.Candidates[i].Updates[j]
			d, _ := new(big.Int).SetString(s.Value, 10)
			adjustVolume(st, s.Coin, d.Neg(d))
			s.Coin = missingCoin(st, r)
			return true
		}},
		{"frozen-value+-1", func(st *types.AppState, r *rand.Rand) bool {
			if len(st.FrozenFunds) == 0 {
				return false
			}
			i := r.Intn(len(st.FrozenFunds))
			st.FrozenFunds[i].Value = addStr(st.FrozenFunds[i].Value, pm(r))
			return true
		}},
		{"frozen-token-value+-1", func(st *types.AppState, r *rand.Rand) bool { // the check added by fix 1e438f8
			var idx []int
			for i, f := range st.FrozenFunds {
				if k := coinIndex(st, f.Coin); k >= 0 && st.Coins[k].Crr == 0 {
					idx = append(idx, i)
				}
			}
			if len(idx) == 0 {
				return false
			}
			i := idx[r.Intn(len(idx))]
			st.FrozenFunds[i].Value = addStr(st.FrozenFunds[i].Value, pm(r))
			return true
		}},
		{"frozen-coin-missing", func(st *types.AppState, r *rand.Rand) bool {
			if len(st.FrozenFunds) == 0 {
				return false
			}
			st.FrozenFunds[r.Intn(len(st.FrozenFunds))].Coin = missingCoin(st, r)
			return true
		}},
		{"frozen-bad-string", func(st *types.AppState, r *rand.Rand) bool {
			if len(st.FrozenFunds) == 0 {
				return false
			}
			st.FrozenFunds[r.Intn(len(st.FrozenFunds))].Value = badAmounts[r.Intn(len(badAmounts))]
			return true
		}},
		{"frozen-candidate-missing", func(st *types.AppState, r *rand.Rand) bool {
			var idx []int
			for i, f := range st.FrozenFunds {
				if f.CandidateKey != nil {
					idx = append(idx, i)
				}
			}
			if len(idx) == 0 {
				return false
			}
			st.FrozenFunds[idx[r.Intn(len(idx))]].CandidateID = 4000 + uint64(r.Intn(100))
			return true
		}},
		{"waitlist-value+-1", func(st *types.AppState, r *rand.Rand) bool {
			if len(st.Waitlist) == 0 {
				return false
			}
			i := r.Intn(len(st.Waitlist))
			st.Waitlist[i].Value = addStr(st.Waitlist[i].Value, pm(r))
			return true
		}},
		{"waitlist-coin-missing", func(st *types.AppState, r *rand.Rand) bool {
			if len(st.Waitlist) == 0 {
				return false
			}
			st.Waitlist[r.Intn(len(st.Waitlist))].Coin = missingCoin(st, r)
			return true
		}},
		{"waitlist-bad-string", func(st *types.AppState, r *rand.Rand) bool {
			if len(st.Waitlist) == 0 {
				return false
			}
			st.Waitlist[r.Intn(len(st.Waitlist))].Value = badAmounts[r.Intn(len(badAmounts))]
			return true
		}},
		{"waitlist-candidate-missing", func(st *types.AppState, r *rand.Rand) bool {
			if len(st.Waitlist) == 0 {
				return false
			}
			st.Waitlist[r.Intn(len(st.Waitlist))].CandidateID = 4000 + uint64(r.Intn(100))
			return true
		}},
		{"account-duplicated", func(st *types.AppState, r *rand.Rand) bool {
			var idx []int
			for i, a := range st.Accounts {
				if len(a.Balance) == 0 { // volumes stay right: only the duplicate-address check can object
					idx = append(idx, i)
				}
			}
			if len(idx) == 0 || r.Intn(2) == 0 {
				if len(st.Accounts) == 0 {
					return false
				}
				st.Accounts = append(st.Accounts, st.Accounts[r.Intn(len(st.Accounts))])
				return true
			}
			st.Accounts = append(st.Accounts, st.Accounts[idx[r.Intn(len(idx))]])
			return true
		}},
		{"validator-duplicated", func(st *types.AppState, r *rand.Rand) bool {
			st.Validators = append(st.Validators, st.Validators[r.Intn(len(st.Validators))])
			return true
		}},
		{"validator-not-candidate", func(st *types.AppState, r *rand.Rand) bool {
			r.Read(st.Validators[r.Intn(len(st.Validators))].PubKey[:])
			return true
		}},
		{"validators-removed", func(st *types.AppState, r *rand.Rand) bool {
			st.Validators = nil
			return true
		}},
		{"validator-amount-bad", func(st *types.AppState, r *rand.Rand) bool {
			i := r.Intn(len(st.Validators))
			if r.Intn(2) == 0 {
				st.Validators[i].AccumReward = badAmounts[r.Intn(len(badAmounts))]
			} else {
				st.Validators[i].TotalBipStake = badAmounts[r.Intn(len(badAmounts))]
			}
			return true
		}},
		{"validator-accum+-1", func(st *types.AppState, r *rand.Rand) bool { // base-coin total changes; no volume to compare it with
			i := r.Intn(len(st.Validators))
			st.Validators[i].AccumReward = addStr(st.Validators[i].AccumReward, 1)
			return true
		}},
		{"validator-absent-nil", func(st *types.AppState, r *rand.Rand) bool {
			st.Validators[r.Intn(len(st.Validators))].AbsentTimes = nil
			return true
		}},
		{"candidate-duplicated", func(st *types.AppState, r *rand.Rand) bool {
			var idx []int
			for i, c := range st.Candidates {
				if len(c.Stakes) == 0 && len(c.Updates) == 0 {
					idx = append(idx, i)
				}
			}
			if len(idx) == 0 {
				return false
			}
			st.Candidates = append(st.Candidates, st.Candidates[idx[r.Intn(len(idx))]])
			return true
		}},
		{"used-check-malformed", func(st *types.AppState, r *rand.Rand) bool {
			if len(st.UsedChecks) == 0 {
				return false
			}
			i := r.Intn(len(st.UsedChecks))
			c := string(st.UsedChecks[i])
			switch r.Intn(4) {
			case 0:
				c = c[:len(c)-2]
			case 1:
				c = c[:len(c)-1]
			case 2:
				c = "zz" + c[2:]
			default:
				c = c + "00"
			}
			st.UsedChecks[i] = types.UsedCheck(c)
			return true
		}},
		{"used-check-uppercase", func(st *types.AppState, r *rand.Rand) bool {
			if len(st.UsedChecks) == 0 {
				return false
			}
			i := r.Intn(len(st.UsedChecks))
			st.UsedChecks[i] = types.UsedCheck(strings.ToUpper(string(st.UsedChecks[i])))
			return true
		}},
		{"total-slashed-bad", func(st *types.AppState, r *rand.Rand) bool {
			st.TotalSlashed = badAmounts[r.Intn(len(badAmounts))]
			return true
		}},
		{"total-slashed+1", func(st *types.AppState, r *rand.Rand) bool {
			st.TotalSlashed = addStr(st.TotalSlashed, 1)
			return true
		}},
	}
}

// ---------------------------------------------------------------------------------------------------------------

// completeGenesis adds what `minter export` takes from the app DB.
func completeGenesis(n *Node, st *types.AppState) tokenExtras {
	adb := n.App.VerifAppDB()
	st.Versions = nil
	for _, v := range adb.GetVersions() {
		st.Versions = append(st.Versions, types.Version{Height: v.Height, Name: v.Name})
	}
	st.Emission = adb.Emission().String()
	t, r0, r1, reward, off := adb.GetPrice()
	st.PrevReward = types.RewardPrice{Time: uint64(t.UTC().UnixNano()), AmountBIP: r0.String(), AmountUSDT: r1.String(), Off: off, Reward: reward.String()}
	if _, safe := n.App.CurrentState().App().Reward(); safe != nil {
		st.PrevReward.SafeReward = safe.String() // as `minter export` does since /repo 9bb5ac3 (the safe reward travels in the genesis)
	}
	x := tokenExtras{NCoins: n.App.CurrentState().App().GetCoinsCount(), Reward: "0", SafeReward: "0", TotalStakes: "0"}
	func() {
		defer func() { recover() }()
		rw, safe := n.App.CurrentState().App().Reward()
		if rw != nil {
			x.Reward = rw.String()
		}
		if safe != nil {
			x.SafeReward = safe.String()
		}
	}()
	return x
}

// exportFeatures counts what an exported state contains (each was a real or seeded defect of export/import before).
func exportFeatures(st *types.AppState, height uint64, notes map[string]int) {
	has := map[string]bool{}
	for _, c := range st.Candidates {
		if len(c.Updates) > 0 {
			has["pending_stake_updates"] = true
		}
		if c.Status == 1 {
			has["offline_candidates"] = true
		}
		if c.JailedUntil > height {
			has["jailed_candidates"] = true
		}
		for _, s := range c.Stakes {
			if s.Coin != 0 {
				has["custom_coin_stakes"] = true
			}
		}
	}
	if len(st.Candidates) > len(st.Validators) {
		has["candidates_outside_validator_set"] = true
	}
	for _, f := range st.FrozenFunds {
		if k := coinIndex(st, f.Coin); k >= 0 && st.Coins[k].Crr == 0 {
			has["locked_tokens"] = true
		}
		if f.CandidateKey == nil {
			has["lock_tx_funds"] = true
		} else {
			has["unbonding_funds"] = true
		}
		if f.MoveToCandidateID != 0 {
			has["moving_stakes"] = true
		}
	}
	for _, p := range st.Pools {
		if len(p.Orders) > 0 {
			has["orders"] = true
		}
		for _, o := range p.Orders {
			if o.IsSale {
				has["sale_orders"] = true
			} else {
				has["buy_orders"] = true
			}
		}
	}
	if len(st.Pools) > 0 {
		has["pools"] = true
	}
	for _, a := range st.Accounts {
		if a.MultisigData != nil && a.Nonce == 0 {
			has["multisig_never_used"] = true
		}
		if a.MultisigData != nil && a.Nonce > 0 {
			has["multisig_used"] = true
		}
		if a.MultisigData != nil && len(a.Balance) == 0 {
			has["multisig_without_balance"] = true
		}
		if a.LockStakeUntilBlock > height {
			has["lock_stake_active"] = true
		}
	}
	for _, c := range st.Coins {
		if c.Version > 0 {
			has["archived_coin_versions"] = true
		}
		if c.OwnerAddress == nil {
			has["ownerless_coins"] = true
		}
	}
	if len(st.UsedChecks) > 0 {
		has["used_checks"] = true
	}
	if len(st.HaltBlocks) > 0 {
		has["halt_votes"] = true
	}
	if len(st.CommissionVotes) > 0 {
		has["commission_votes"] = true
	}
	if len(st.UpdateVotes) > 0 {
		has["update_votes"] = true
	}
	if len(st.DeletedCandidates) > 0 {
		has["deleted_candidates"] = true
	}
	if len(st.BlockListCandidates) > 0 {
		has["blocklisted_keys"] = true
	}
	if len(st.Waitlist) > 0 {
		has["waitlist"] = true
	}
	if st.TotalSlashed != "0" {
		has["slashed"] = true
	}
	if st.PrevReward.Off {
		has["reward_off_mode"] = true
	}
	for k := range has {
		notes[k]++
	}
}

// ---------------------------------------------------------------------------------------------------------------
// (5) the export against the node's getters

var addressType = reflect.TypeOf(types.Address{})

// collectAddresses adds every types.Address found in v (transaction data: structs, slices, pointers) to out.
func collectAddresses(v reflect.Value, out map[types.Address]bool, depth int) {
	if depth > 6 || !v.IsValid() {
		return
	}
	if v.Type() == addressType {
		if v.CanInterface() {
			out[v.Interface().(types.Address)] = true
		}
		return
	}
	switch v.Kind() {
	case reflect.Ptr, reflect.Interface:
		if !v.IsNil() {
			collectAddresses(v.Elem(), out, depth+1)
		}
	case reflect.Struct:
		if v.Type().PkgPath() == "math/big" {
			return
		}
		for i := 0; i < v.NumField(); i++ {
			if v.Type().Field(i).PkgPath == "" { // exported
				collectAddresses(v.Field(i), out, depth+1)
			}
		}
	case reflect.Slice, reflect.Array:
		if v.Type().Elem().Kind() == reflect.Uint8 {
			return
		}
		for i := 0; i < v.Len(); i++ {
			collectAddresses(v.Index(i), out, depth+1)
		}
	}
}

// watchAddresses records, for every transaction the history delivers, the addresses it mentions and - for CreateMultisig -
// the address of the wallet it would create (whether the transaction was accepted is the getters' business).
func watchAddresses(h *Hist, seen map[types.Address]bool) {
	prev := h.DebugHook
	h.DebugHook = func(g *GenTx) {
		if prev != nil {
			prev(g)
		}
		func() {
			defer func() { recover() }()
			seen[g.Sender] = true
			for _, a := range g.Signers {
				seen[a] = true
			}
			if g.Data != nil {
				collectAddresses(reflect.ValueOf(g.Data), seen, 0)
			}
			if g.Type == tx.TypeCreateMultisig {
				seen[accounts.CreateMultisigAddress(g.Sender, g.Nonce)] = true
			}
		}()
	}
}

type xcheck struct {
	msgs  map[string][]string // category -> details
	count map[string]int
}

func (x *xcheck) miss(cat, format string, a ...interface{}) {
	x.count[cat]++
	if len(x.msgs[cat]) < 4 {
		x.msgs[cat] = append(x.msgs[cat], fmt.Sprintf(format, a...))
	}
}

func msigString(threshold uint64, weights []uint64, addrs []types.Address) string {
	var parts []string
	for i, a := range addrs {
		w := uint64(0)
		if i < len(weights) {
			w = weights[i]
		}
		parts = append(parts, fmt.Sprintf("%s:%d", hexs(a[:]), w))
	}
	return fmt.Sprintf("%d/%s", threshold, strings.Join(parts, ","))
}

// crossCheckExport compares the exported state st of node n with what n's read-only getters (CurrentState(), as the API) answer.
// who: "export" or "re-export of the imported chain". Every category of difference is reported once per export.
func (e *export2) crossCheckExport(n *Node, st *types.AppState, who string, fail func(string)) {
	x := &xcheck{msgs: map[string][]string{}, count: map[string]int{}}
	t0 := time.Now()
	defer func() { e.xstats["exports_checked"]++; e.xstats["milliseconds"] += int(time.Since(t0) / time.Millisecond) }()
	cs := n.App.CurrentState()
	guard := func(what string, f func()) {
		defer func() {
			if r := recover(); r != nil {
				x.miss("export-crosscheck-getter-panics", "%s: %s", what, shortPanic(r))
			}
		}()
		f()
	}

	// ---- accounts
	exported := map[types.Address]*types.Account{}
	for i := range st.Accounts {
		a := &st.Accounts[i]
		if exported[a.Address] != nil {
			x.miss("export-duplicates-account", "%s", a.Address.String())
		}
		exported[a.Address] = a
	}
	addrs := map[types.Address]bool{{}: true, burnAddr: true}
	for a := range e.univ {
		addrs[a] = true
	}
	for a := range exported {
		addrs[a] = true
	}
	for i := range st.Candidates {
		c := &st.Candidates[i]
		addrs[c.OwnerAddress], addrs[c.RewardAddress], addrs[c.ControlAddress] = true, true, true
		for _, s := range c.Stakes {
			addrs[s.Owner] = true
		}
		for _, s := range c.Updates {
			addrs[s.Owner] = true
		}
	}
	guard("candidates", func() {
		for _, c := range cs.Candidates().GetCandidates() {
			addrs[c.OwnerAddress], addrs[c.RewardAddress], addrs[c.ControlAddress] = true, true, true
		}
	})
	for _, c := range st.Coins {
		if c.OwnerAddress != nil {
			addrs[*c.OwnerAddress] = true
		}
	}
	for _, f := range st.FrozenFunds {
		addrs[f.Address] = true
	}
	for _, w := range st.Waitlist {
		addrs[w.Owner] = true
	}
	for _, p := range st.Pools {
		for _, o := range p.Orders {
			addrs[o.Owner] = true
		}
	}
	// owners of the multisig wallets are accounts of their own
	for a := range addrs {
		guard("multisig owners", func() {
			if acc := cs.Accounts().GetAccount(a); acc != nil && acc.IsMultisig() {
				for _, o := range acc.Multisig().Addresses {
					addrs[o] = true
				}
			}
		})
	}
	list := make([]types.Address, 0, len(addrs))
	for a := range addrs {
		list = append(list, a)
	}
	sort.Slice(list, func(i, j int) bool { return string(list[i][:]) < string(list[j][:]) })
	e.xstats["addresses_checked"] += len(list)
	for _, a := range list {
		a := a
		guard("account "+a.String(), func() {
			nonce := cs.Accounts().GetNonce(a)
			lock := cs.Accounts().GetLockStakeUntilBlock(a)
			bal := map[uint64]string{}
			for _, b := range cs.Accounts().GetBalances(a) {
				if b.Value != nil && b.Value.Sign() > 0 {
					bal[uint64(b.Coin.ID)] = b.Value.String()
				}
			}
			isMs := cs.Accounts().ExistsMultisig(a)
			ms := ""
			if acc := cs.Accounts().GetAccount(a); acc != nil && acc.IsMultisig() {
				m := acc.Multisig()
				ws := make([]uint64, len(m.Weights))
				for i, w := range m.Weights {
					ws[i] = uint64(w)
				}
				ms = msigString(uint64(m.Threshold), ws, m.Addresses)
				isMs = true
			}
			ex := exported[a]
			if ex == nil {
				var has []string
				if nonce != 0 {
					has = append(has, fmt.Sprintf("nonce %d", nonce))
				}
				if len(bal) > 0 {
					has = append(has, fmt.Sprintf("%d positive balances", len(bal)))
				}
				if isMs {
					has = append(has, "multisig data "+ms)
					e.xstats["unexported_multisig"]++
				}
				if lock != 0 {
					has = append(has, fmt.Sprintf("stake lock until %d", lock))
				}
				if len(has) > 0 {
					x.miss("export-misses-account", "%s is not in the %s but the node holds for it: %s", a.String(), who, strings.Join(has, ", "))
				} else {
					e.xstats["empty_addresses_absent"]++
				}
				return
			}
			if isMs && nonce == 0 && len(bal) == 0 {
				e.xstats["unfunded_unused_multisig_exported"]++
			}
			if ex.Nonce != nonce {
				x.miss("export-misses-nonce", "%s: exported nonce %d, GetNonce %d", a.String(), ex.Nonce, nonce)
			}
			if ex.LockStakeUntilBlock != lock {
				x.miss("export-misses-stake-lock", "%s: exported lock %d, GetLockStakeUntilBlock %d", a.String(), ex.LockStakeUntilBlock, lock)
			}
			exBal := map[uint64]string{}
			for _, b := range ex.Balance {
				exBal[b.Coin] = b.Value
			}
			for c, v := range bal {
				if exBal[c] != v {
					x.miss("export-misses-balance", "%s coin %d: exported %q, GetBalances %s", a.String(), c, exBal[c], v)
				}
			}
			for c, v := range exBal {
				if _, ok := bal[c]; !ok {
					x.miss("export-misses-balance", "%s coin %d: exported %s, the getter has no positive balance", a.String(), c, v)
				}
			}
			exMs := ""
			if ex.MultisigData != nil {
				exMs = msigString(ex.MultisigData.Threshold, ex.MultisigData.Weights, ex.MultisigData.Addresses)
			}
			if exMs != ms {
				x.miss("export-misses-multisig", "%s: exported multisig data %q, the node's %q", a.String(), exMs, ms)
			}
		})
	}

	// ---- coins: every id up to the coin counter (and every exported id)
	exCoin := map[uint64]*types.Coin{}
	for i := range st.Coins {
		exCoin[st.Coins[i].ID] = &st.Coins[i]
	}
	ids := map[uint64]bool{}
	guard("coin counter", func() {
		for id := uint64(1); id <= uint64(cs.App().GetCoinsCount()); id++ {
			ids[id] = true
		}
	})
	for id := range exCoin {
		ids[id] = true
	}
	for id := range ids {
		id := id
		guard(fmt.Sprintf("coin %d", id), func() {
			c := cs.Coins().GetCoin(types.CoinID(id))
			ex := exCoin[id]
			e.xstats["coins_checked"]++
			if c == nil {
				if ex != nil {
					x.miss("export-invents-coin", "coin %d is exported but GetCoin knows none", id)
				}
				return // a hole in the id range is C22's business
			}
			if ex == nil {
				x.miss("export-misses-coin", "coin %d (%s, volume %s) is not in the %s", id, c.GetFullSymbol(), c.Volume(), who)
				return
			}
			owner := ""
			if info := cs.Coins().GetSymbolInfo(c.Symbol()); info != nil && info.OwnerAddress() != nil {
				owner = info.OwnerAddress().String()
			}
			exOwner := ""
			if ex.OwnerAddress != nil {
				exOwner = ex.OwnerAddress.String()
			}
			got := fmt.Sprintf("volume=%s reserve=%s crr=%d max=%s version=%d symbol=%s owner=%s", c.Volume(), c.Reserve(), c.Crr(), c.MaxSupply(), c.Version(), c.Symbol().String(), owner)
			exs := fmt.Sprintf("volume=%s reserve=%s crr=%d max=%s version=%d symbol=%s owner=%s", ex.Volume, orZero(ex.Reserve), ex.Crr, ex.MaxSupply, ex.Version, ex.Symbol.String(), exOwner)
			if got != exs {
				x.miss("export-misses-coin", "coin %d: exported {%s}, getters {%s}", id, exs, got)
			}
		})
	}

	// ---- candidates
	exCand := map[types.Pubkey]*types.Candidate{}
	for i := range st.Candidates {
		exCand[st.Candidates[i].PubKey] = &st.Candidates[i]
	}
	pks := map[types.Pubkey]bool{}
	for pk := range e.pks {
		pks[pk] = true
	}
	for pk := range exCand {
		pks[pk] = true
	}
	guard("candidates", func() {
		for _, c := range cs.Candidates().GetCandidates() {
			pks[c.PubKey] = true
		}
	})
	for pk := range pks {
		pk := pk
		guard("candidate "+pk.String(), func() {
			c := cs.Candidates().GetCandidate(pk)
			ex := exCand[pk]
			e.xstats["pubkeys_checked"]++
			if c == nil {
				if ex != nil {
					x.miss("export-invents-candidate", "%s is exported but GetCandidate knows none", pk.String())
				}
				return
			}
			if ex == nil {
				x.miss("export-misses-candidate", "candidate %d %s (status %d) is not in the %s", c.ID, pk.String(), c.Status, who)
				return
			}
			got := fmt.Sprintf("id=%d owner=%s reward=%s control=%s commission=%d status=%d jailed=%d", c.ID, c.OwnerAddress.String(), c.RewardAddress.String(), c.ControlAddress.String(), c.Commission, c.Status, c.JailedUntil)
			exs := fmt.Sprintf("id=%d owner=%s reward=%s control=%s commission=%d status=%d jailed=%d", ex.ID, ex.OwnerAddress.String(), ex.RewardAddress.String(), ex.ControlAddress.String(), ex.Commission, ex.Status, ex.JailedUntil)
			if got != exs {
				x.miss("export-misses-candidate", "%s: exported {%s}, GetCandidate {%s}", pk.String(), exs, got)
			}
			cs.Candidates().LoadStakesOfCandidate(pk)
			var gs, es []string
			for _, s := range cs.Candidates().GetStakes(pk) {
				gs = append(gs, fmt.Sprintf("%s:%d:%s", hexs(s.Owner[:]), s.Coin, s.Value))
			}
			for _, s := range ex.Stakes {
				es = append(es, fmt.Sprintf("%s:%d:%s", hexs(s.Owner[:]), s.Coin, s.Value))
			}
			sort.Strings(gs)
			sort.Strings(es)
			if strings.Join(gs, " ") != strings.Join(es, " ") {
				x.miss("export-misses-stake", "%s: exported stakes [%s], GetStakes [%s]", pk.String(), clip(strings.Join(es, " "), 300), clip(strings.Join(gs, " "), 300))
			}
		})
	}

	// ---- pools between the known coins
	exPool := map[[2]uint64]*types.Pool{}
	pc := map[uint64]bool{0: true}
	for i := range st.Pools {
		p := &st.Pools[i]
		exPool[[2]uint64{p.Coin0, p.Coin1}] = p
		pc[p.Coin0], pc[p.Coin1] = true, true
	}
	var low []uint64
	for id := range ids {
		low = append(low, id)
	}
	sort.Slice(low, func(i, j int) bool { return low[i] < low[j] })
	for i, id := range low {
		if i < 40 || id == 1993 {
			pc[id] = true
		}
	}
	var pcl []uint64
	for id := range pc {
		pcl = append(pcl, id)
	}
	sort.Slice(pcl, func(i, j int) bool { return pcl[i] < pcl[j] })
	for _, c0 := range pcl {
		for _, c1 := range pcl {
			if c0 >= c1 {
				continue
			}
			c0, c1 := c0, c1
			guard(fmt.Sprintf("pool %d-%d", c0, c1), func() {
				exists := cs.Swap().SwapPoolExist(types.CoinID(c0), types.CoinID(c1))
				ex := exPool[[2]uint64{c0, c1}]
				if !exists {
					if ex != nil {
						x.miss("export-invents-pool", "pool %d-%d is exported but SwapPoolExist says no", c0, c1)
					}
					return
				}
				e.xstats["pools_checked"]++
				r0, r1, id := cs.Swap().SwapPool(types.CoinID(c0), types.CoinID(c1))
				if ex == nil {
					x.miss("export-misses-pool", "pool %d-%d (id %d, reserves %s / %s) is not in the %s", c0, c1, id, r0, r1, who)
					return
				}
				if ex.Reserve0 != r0.String() || ex.Reserve1 != r1.String() || ex.ID != uint64(id) {
					x.miss("export-misses-pool", "pool %d-%d: exported id %d reserves %s / %s, SwapPool id %d reserves %s / %s", c0, c1, ex.ID, ex.Reserve0, ex.Reserve1, id, r0, r1)
				}
			})
		}
	}

	// ---- used checks among the checks the generator issued
	used := map[string]bool{}
	for _, u := range st.UsedChecks {
		used[strings.ToLower(string(u))] = true
	}
	for _, ic := range e.checks() {
		ic := ic
		guard("check", func() {
			c, err := check.DecodeFromBytes(ic.Raw)
			if err != nil {
				return
			}
			e.xstats["checks_checked"]++
			hs := hexs(c.Hash().Bytes())
			if cs.Checks().IsCheckUsed(c) {
				e.xstats["checks_redeemed"]++
				if !used[hs] {
					x.miss("export-misses-used-check", "check %s (issuer %s) was redeemed but is not in UsedChecks of the %s", hs, ic.Issuer.String(), who)
				}
			} else if used[hs] {
				x.miss("export-invents-used-check", "check %s is in UsedChecks but IsCheckUsed says no", hs)
			}
		})
	}

	cats := make([]string, 0, len(x.msgs))
	for c := range x.msgs {
		cats = append(cats, c)
	}
	sort.Strings(cats)
	for _, c := range cats {
		fail(fmt.Sprintf("%s (%s at height %d, %d cases): %s", c, who, n.Height, x.count[c], strings.Join(x.msgs[c], " ; ")))
	}
}

func orZero(s string) string {
	if s == "" {
		return "0"
	}
	return s
}

type export2 struct {
	univ      map[types.Address]bool // addresses the current history knows (Hist.Univ, shared: it grows with the history)
	seenAddrs map[types.Address]bool // addresses mentioned by delivered transactions (same map as univ's source, see ExportMode2)
	pks       map[types.Pubkey]bool
	checks    func() []IssuedCheck
	refresh   func()
	xstats    map[string]int
	res       *ModeResult
	sink      *Sink
	trace     *os.File
	tracePath string
	r         *rand.Rand
	keep      string
	profile   string
	nodeOpts  NodeOpts
	base      string
	muts      []mutation
	perKind   map[string]map[string]int // kind -> verdict -> count
	gaps      map[string]map[string]int // kind -> (invariant / import outcome) -> count
	features  map[string]int
	verdicts  map[string]int
	disagree  map[string]int
	nMut      int
	nExports  int
	failed    bool
}

// assert sends a Q line whose expected answer is fixed; a driver MISMATCH lands in sink.Fails.
// Only the failing lines are kept (file `tracePath`): each is a self-contained replay for the driver (a quick run sends ~170 MB of Q lines).
func (e *export2) assert(line string) bool {
	before := len(e.sink.Fails)
	e.sink.Op(line)
	e.res.Evaluations++
	if len(e.sink.Fails) == before {
		return true
	}
	if e.trace == nil {
		e.trace, _ = os.Create(e.tracePath)
	}
	if e.trace != nil {
		e.trace.WriteString(line + "\n")
	}
	return false
}

// ask evaluates a model function and returns its answer (not an assertion: nothing is recorded as failure).
func (e *export2) ask(fn string, args ...string) string {
	if e.sink.out == nil {
		return "no-driver"
	}
	before := len(e.sink.Fails)
	last := e.sink.Op("Q " + fn + " " + strings.Join(args, " ") + " = ?")
	e.sink.Fails = e.sink.Fails[:before]
	for _, l := range last {
		if strings.HasPrefix(l, "MISMATCH kernel "+fn+" ") && strings.HasSuffix(l, " go=?") {
			l = strings.TrimSuffix(l, " go=?")
			if i := strings.LastIndex(l, " model="); i >= 0 {
				return l[i+7:]
			}
		}
	}
	return "no-answer"
}

// bindUniverse ties the cross-check (5) to a history: what the history knows about addresses, public keys and checks.
func (e *export2) bindUniverse(h *Hist) {
	e.seenAddrs = map[types.Address]bool{}
	watchAddresses(h, e.seenAddrs)
	e.univ = map[types.Address]bool{}
	e.pks = map[types.Pubkey]bool{}
	e.checks = func() []IssuedCheck { return h.W.Checks }
	e.refresh = func() {
		for a := range h.Univ {
			e.univ[a] = true
		}
		for a := range e.seenAddrs {
			e.univ[a] = true
		}
		for _, a := range h.W.Addrs {
			e.univ[a] = true
		}
		for _, m := range h.W.Multis {
			e.univ[m.Addr] = true
		}
		for pk := range h.PKs {
			e.pks[pk] = true
		}
		for _, pk := range h.W.PubKeys {
			e.pks[pk] = true
		}
	}
}

func (e *export2) refreshUniverse() {
	if e.refresh != nil {
		e.refresh()
	}
}

// checkExport: parts (1) and (2) for one exported state.
func (e *export2) checkExport(n *Node, st *types.AppState, x tokenExtras, seed int64, perMut int, fail func(string)) {
	e.nExports++
	exportFeatures(st, n.Height, e.features)
	e.refreshUniverse()
	e.crossCheckExport(n, st, "export", fail)
	tok := genesisToken(st, x)
	v, msg := verifyVerdict(st)
	if v != "ok" {
		fail("exported state fails its own validation: " + v + ": " + msg)
	}
	if !e.assert(fmt.Sprintf("Q verify %s %s = %s", e.base, tok, v)) {
		fail("model and node disagree on the validation of a real export: node=" + v + " " + clipModel(lastFail(e.sink)))
	}
	if v != "ok" {
		return // mutants of a rejected export say nothing
	}
	if !e.assert(fmt.Sprintf("Q wellformed %s = ok", tok)) {
		lf := lastFail(e.sink)
		tag := "export-invariant-violated: "
		if strings.Contains(lf, "model=reward-settled") {
			tag = "safe-reward-lost-on-import: the reward pair of the exported state is not what an import restores (reward / safe reward / price record): "
		}
		fail(tag + clipModel(lf))
	}
	// (2) mutants
	if len(tok) > 40000 && perMut > 2 { // very large exports (100+ candidates): fewer mutants, each evaluation is slow
		perMut = 2
	}
	for _, m := range e.muts {
		for k := 0; k < perMut; k++ {
			c := copyState(st)
			if !m.f(&c, e.r) {
				break
			}
			e.nMut++
			gv, gmsg := verifyVerdict(&c)
			mtok := genesisToken(&c, x)
			if e.perKind[m.name] == nil {
				e.perKind[m.name] = map[string]int{}
			}
			cls := gv
			if gv != "ok" && gv != "panic" {
				cls = "rejected:" + gv
			} else if gv == "ok" {
				cls = "accepted"
			}
			e.perKind[m.name][cls]++
			e.verdicts[cls]++
			if !e.assert(fmt.Sprintf("Q verifyagree %s %s %s = ok", gv, e.base, mtok)) {
				e.disagree[m.name]++
				if e.disagree[m.name] == 1 { // one violation per kind of mutation; the count is in Notes
					fail(fmt.Sprintf("model and node disagree on a mutated export (%s): node=%s (%s) %s", m.name, gv, clip(gmsg, 120), clipModel(lastFail(e.sink))))
				}
			}
			if gv == "ok" {
				// both accept: is the genesis one a reachable state could have produced (invariants), and what does an import do?
				if e.gaps[m.name] == nil {
					e.gaps[m.name] = map[string]int{}
				}
				wf := e.ask("wellformed", mtok)
				e.gaps[m.name]["invariant:"+wf]++
				if e.gaps[m.name]["imports"] < 3 {
					e.gaps[m.name]["imports"]++
					no := e.nodeOpts
					no.InitialHeight = int64(n.Height) + 1
					n2, err := NewNode(c, no)
					if err != nil {
						e.gaps[m.name]["import:panic"]++
						if e.gaps[m.name]["import:panic"] == 1 {
							e.res.Notes["gap_sample_"+m.name] = clip(strings.SplitN(err.Error(), "\n", 2)[0], 160)
						}
					} else {
						st2, pan := n2.Export()
						v2 := "export-panic"
						if pan == "" {
							v2, _ = verifyVerdict(&st2)
						}
						e.gaps[m.name]["import:ok,reexport:"+v2]++
						n2.Destroy()
					}
				}
			}
		}
	}
}

func lastFail(s *Sink) string {
	if len(s.Fails) == 0 {
		return ""
	}
	return s.Fails[len(s.Fails)-1]
}

// clipModel keeps the informative tail of a driver MISMATCH line (the head repeats the whole token).
func clipModel(l string) string {
	if i := strings.LastIndex(l, " model="); i >= 0 {
		return clip(l[i+1:], 200)
	}
	return clip(l, 200)
}

// roundTrip: part (3) for one export; returns the imported node (nil when the import failed).
func (e *export2) roundTrip(h *Hist, st types.AppState, x tokenExtras, o HistOpts, fail func(string)) *Node {
	no := o.Node
	no.InitialHeight = int64(h.N.Height) + 1
	n2, err := NewNode(st, no)
	if err != nil {
		fail("fresh chain rejects the exported genesis: " + clip(err.Error(), 400))
		return nil
	}
	st2, pan2 := n2.Export()
	if pan2 != "" {
		fail("export of the imported chain panicked: " + pan2)
		return n2
	}
	x2 := completeGenesis(n2, &st2)
	if v, msg := verifyVerdict(&st2); v != "ok" {
		fail("re-export of the imported chain fails validation: " + v + ": " + msg)
	}
	e.refreshUniverse()
	e.crossCheckExport(n2, &st2, "re-export of the imported chain", fail)
	d1, d2 := DumpState(&st), DumpState(&st2)
	if diff := Delta(c11Project(d1), c11Project(d2)); len(diff) > 0 {
		sort.Strings(diff)
		fail("re-export differs from the export: " + strings.Join(diff[:minInt(6, len(diff))], " ; "))
	} else if diff := Delta(d1, d2); len(diff) > 0 {
		sort.Strings(diff)
		e.res.viol("C11", "stake-recalculation-on-import: re-export differs only in recomputed stake values: "+clip(strings.Join(diff[:minInt(3, len(diff))], " ; "), 200), "")
	}
	// the model's import against the node's (everything outside the recalculation, incl. coin counter, next order id, reward pair)
	if !e.assert(fmt.Sprintf("Q importagrees %s %s = ok", genesisToken(&st, x), genesisToken(&st2, x2))) {
		lf := lastFail(e.sink)
		tag := "model-import-differs-from-node: "
		if strings.Contains(lf, "safeReward:") || strings.Contains(lf, "reward:") {
			tag = "safe-reward-lost-on-import: "
		}
		fail(tag + clipModel(lf))
	}
	return n2
}

// ExportMode2 (C11).
func ExportMode2(profile string, baseSeed int64, n int, tier, driver, keep string) ModeResult {
	res := ModeResult{Notes: map[string]interface{}{}}
	os.MkdirAll(keep, 0o755)
	tracePath := fmt.Sprintf("%s/export2-%s-%d.trace", keep, profile, baseSeed)
	sink, err := NewSink("", driver)
	if err != nil {
		res.Crash = err.Error()
		return res
	}
	e := &export2{res: &res, sink: sink, tracePath: tracePath, r: rand.New(rand.NewSource(baseSeed)), keep: keep, profile: profile, muts: mutations(),
		xstats: map[string]int{}, perKind: map[string]map[string]int{}, gaps: map[string]map[string]int{}, features: map[string]int{}, verdicts: map[string]int{}, disagree: map[string]int{}}
	perMut, perMut2 := 12, 6
	if tier == "thorough" {
		perMut, perMut2 = 14, 7
	}
	rotate := []string{"mixed", "orders", "staking", "governance", "ledger", "rewardtime", "pruned"}
	profCount := map[string]int{}
	for i := 0; i < n; i++ {
		seed := baseSeed*1000 + int64(i)
		prof := profile
		if profile == "rotate" {
			prof = rotate[i%len(rotate)]
		}
		profCount[prof]++
		e.profile = prof
		hsink, _ := NewSink("", "")
		o := Profile(prof, seed, tier)
		if prof == "pruned" { // more than 100 candidates: the stake recalculation deletes the lowest ones (deleted candidates in the export)
			o = Profile("staking", seed, tier)
			o.Gen = GenOpts{Candidates: 103, ValidatorN: 4}
		}
		h, err := NewHist(o, hsink)
		if err != nil {
			res.Crash = err.Error()
			continue
		}
		e.base = types.GetBaseCoin().String()
		e.nodeOpts = o.Node
		e.bindUniverse(h)
		cut := 3 + h.W.Rng.Intn(o.Blocks-6)
		if h.W.Rng.Intn(100) < 50 {
			// exports right after a payout block carry no pending stake updates
			// (payout and the stake recalculation both run in the block whose height is a multiple of the period)
			cut = int(h.N.Period) * (1 + h.W.Rng.Intn((o.Blocks-6)/int(h.N.Period)))
			cut -= int(h.N.Height % h.N.Period)
			if cut < 1 {
				cut += int(h.N.Period)
			}
		}
		alive := true
		for b := 0; b < cut && alive; b++ {
			alive = h.Block()
		}
		res.Evaluations += h.Ops
		if !alive {
			h.N.Destroy()
			continue
		}
		nfail := 0
		fail := func(msg string) {
			nfail++
			e.failed = true
			dst := fmt.Sprintf("%s/export2-%s-%d.txt", keep, prof, seed)
			ioutil.WriteFile(dst, []byte(fmt.Sprintf("profile=%s seed=%d exported after %d blocks (height %d)\n%s\nQ lines: %s\n", prof, seed, cut, h.N.Height, msg, tracePath)), 0o644)
			res.viol("C11", clip(msg, 400), dst)
		}
		st, pan := h.N.Export()
		if pan != "" {
			res.viol("C11", "export panicked: "+pan, "")
			h.N.Destroy()
			continue
		}
		x := completeGenesis(h.N, &st)
		e.checkExport(h.N, &st, x, seed, perMut, fail)
		n2 := e.roundTrip(h, st, x, o, fail)
		if n2 != nil && nfail == 0 {
			// continue both chains with the same blocks and compare responses and exports
			h.MirrorProject = c11Project
			twinBlocks := 0
			for b := 0; b < 8 && alive && nfail == 0 && (h.N.Height+1)%h.N.Period != 0; b++ { // stop before the next payout (rewards depend on the recomputed stakes)
				// (not Hist.blockTwin: that stops as soon as the result holds any violation, also a known-finding one)
				h.Mirror = n2
				alive = h.Block()
				for _, d := range h.MirrorDiffs {
					fail("imported chain behaves differently: " + d)
				}
				h.MirrorDiffs = nil
				twinBlocks++
			}
			h.Mirror = nil
			e.features["twin_blocks"] += twinBlocks
			if os.Getenv("EXPORT2_DEBUG") != "" {
				fmt.Fprintf(os.Stderr, "seed=%d prof=%s cut=%d height=%d period=%d twin=%d alive=%v nfail=%d dead=%q panics=%v\n", seed, prof, cut, h.N.Height, h.N.Period, twinBlocks, alive, nfail, h.N.Dead, h.Panics)
			}
		}
		if n2 != nil {
			n2.Destroy()
		}
		// a second export of the same chain a few blocks later (usually between payouts: pending stake updates), parts (1)-(3)
		if alive && nfail == 0 && h.N.Dead == "" {
			for b := 0; b < 1+h.W.Rng.Intn(4) && alive; b++ {
				alive = h.Block()
			}
			if alive {
				if st3, pan3 := h.N.Export(); pan3 != "" {
					res.viol("C11", "export panicked: "+pan3, "")
				} else {
					x3 := completeGenesis(h.N, &st3)
					e.checkExport(h.N, &st3, x3, seed, perMut2, fail)
					if n3 := e.roundTrip(h, st3, x3, o, fail); n3 != nil {
						n3.Destroy()
					}
				}
			}
		}
		if len(res.Samples) < 2 {
			res.Samples = append(res.Samples, map[string]interface{}{"seed": seed, "profile": prof, "exported_at": h.N.Height, "accounts": len(st.Accounts), "coins": len(st.Coins),
				"frozen": len(st.FrozenFunds), "next_order": st.NextOrderID, "token_bytes": len(genesisToken(&st, x))})
		}
		h.N.Destroy()
	}
	e.safeRewardProbe(baseSeed*1000+999, tier)
	sink.Close()
	if e.trace != nil {
		e.trace.Close()
	}
	for _, f := range sink.Fails {
		if strings.HasPrefix(f, "DRIVER-EOF") || strings.HasPrefix(f, "FAIL") {
			res.viol("C11", clip(f, 300), tracePath)
			e.failed = true
		}
	}
	res.Distinct = e.nMut + e.nExports
	res.Notes["exports"] = e.nExports
	res.Notes["mutants"] = e.nMut
	res.Notes["mutant_verdicts"] = e.verdicts
	if len(e.disagree) > 0 {
		res.Notes["model_node_disagreements_per_kind"] = e.disagree
	}
	res.Notes["mutants_per_kind"] = e.perKind
	res.Notes["accepted_mutants_invariants_and_import"] = e.gaps
	res.Notes["export_features_reached"] = e.features
	res.Notes["profiles"] = profCount
	never := []string{}
	for _, k := range []string{"pending_stake_updates", "locked_tokens", "lock_tx_funds", "orders", "multisig_never_used", "used_checks", "halt_votes", "commission_votes", "update_votes", "deleted_candidates", "waitlist", "moving_stakes", "archived_coin_versions"} {
		if e.features[k] == 0 {
			never = append(never, k)
		}
	}
	res.Notes["export_features_never_reached"] = never
	res.Notes["export_vs_getters"] = e.xstats
	return res
}

// safeRewardProbe drives one chain into the "reward off" state of the price record (the BIP/USDT pool price falls by more than
// 10 % between two daily price updates: the block reward becomes 0 while the *safe* reward, which pays the locked stakes, keeps
// following the price) and exports it there.  A genesis carries only one of the two numbers (PrevReward.Reward); the probe checks
// what the imported chain holds.
func (e *export2) safeRewardProbe(seed int64, tier string) {
	hsink, _ := NewSink("", "")
	o := Profile("mixed", seed, tier)
	h, err := NewHist(o, hsink)
	if err != nil {
		e.res.Notes["safe_reward_probe"] = "setup failed: " + err.Error()
		return
	}
	defer h.N.Destroy()
	n := h.N
	t := time.Date(2024, 1, 10, 12, 30, 0, 0, time.UTC)
	var twin *Node // receives the same blocks once set
	block := func(raws ...[]byte) (codes []uint32, ok bool) {
		height := n.Height + 1
		if height%n.Period == 1 {
			t = time.Date(t.Year(), t.Month(), t.Day()+1, 12, 30, 0, 0, time.UTC)
		} else {
			t = t.Add(5 * time.Second)
		}
		votes := n.Validators()
		for _, nd := range []*Node{n, twin} {
			if nd == nil {
				continue
			}
			if pan := nd.Begin(height, t, votes, nil); pan != "" {
				return nil, false
			}
			for _, raw := range raws {
				r, pan := nd.Deliver(raw)
				if pan != "" {
					return nil, false
				}
				if nd == n {
					codes = append(codes, r.Code)
				}
			}
			if _, pan := nd.End(height); pan != "" {
				return nil, false
			}
			if _, pan := nd.Commit(); pan != "" {
				return nil, false
			}
		}
		return codes, true
	}
	pair := func(nd *Node) string {
		rw, safe := nd.App.CurrentState().App().Reward()
		return fmt.Sprintf("reward=%s safeReward=%s", bs(rw), bs(safe))
	}
	// first daily update (height % period == 1)
	if _, ok := block(); !ok {
		e.res.Notes["safe_reward_probe"] = "node died"
		return
	}
	before := pair(n)
	// crash the BIP/USDT price: sell 60 % of the pool's BIP reserve worth of BIP into it
	st0, _ := n.Export()
	var r0 *big.Int
	for _, p := range st0.Pools {
		if p.Coin0 == 0 && p.Coin1 == 1993 {
			r0 = bi(p.Reserve0)
		}
	}
	var rich types.Address
	best := big.NewInt(0)
	for _, a := range st0.Accounts {
		if a.MultisigData != nil || h.W.KeyOf[a.Address] == nil {
			continue
		}
		for _, b := range a.Balance {
			if b.Coin == 0 && bi(b.Value).Cmp(best) > 0 {
				best, rich = bi(b.Value), a.Address
			}
		}
	}
	if r0 == nil || best.Sign() == 0 {
		e.res.Notes["safe_reward_probe"] = "no BIP/USDT pool or no funded account"
		return
	}
	amount := new(big.Int).Div(new(big.Int).Mul(r0, big.NewInt(6)), big.NewInt(10))
	if lim := new(big.Int).Div(new(big.Int).Mul(best, big.NewInt(9)), big.NewInt(10)); amount.Cmp(lim) > 0 {
		amount = lim
	}
	sell := h.G.Build(tx.TypeSellSwapPool, tx.SellSwapPoolDataV260{Coins: []types.CoinID{0, 1993}, ValueToSell: amount, MinimumValueToBuy: big.NewInt(1)}, rich, 0,
		func(t *tx.Transaction) { t.GasPrice = 1; t.Payload = nil; t.ServiceData = nil })
	codes, ok := block(sell.Raw)
	if !ok || len(codes) != 1 || codes[0] != 0 {
		e.res.Notes["safe_reward_probe"] = fmt.Sprintf("the price-crashing sale was not accepted (codes %v, amount %s of reserve %s, balance %s)", codes, amount, r0, best)
		return
	}
	// up to the next daily update
	for n.Height%n.Period != 1 {
		if _, ok := block(); !ok {
			e.res.Notes["safe_reward_probe"] = "node died"
			return
		}
	}
	after := pair(n)
	st, pan := n.Export()
	if pan != "" {
		e.res.Notes["safe_reward_probe"] = "export panicked: " + pan
		return
	}
	x := completeGenesis(n, &st)
	exportedAt := n.Height
	e.features["reward_off_mode_probe"]++
	no := o.Node
	no.InitialHeight = int64(n.Height) + 1
	n2, err := NewNode(st, no)
	if err != nil {
		e.res.viol("C11", "fresh chain rejects the exported genesis (safe-reward probe): "+clip(err.Error(), 300), "")
		return
	}
	defer n2.Destroy()
	imported := pair(n2)
	e.res.Notes["safe_reward_probe"] = fmt.Sprintf("after first update: %s; after the price fell: %s off=%v; imported chain: %s", before, after, st.PrevReward.Off, imported)
	st2, _ := n2.Export()
	x2 := completeGenesis(n2, &st2)
	// the model: `reward-settled` is the invariant that fails exactly when the import changes the reward pair; `importState` must
	// predict what the imported node holds
	wf := e.ask("wellformed", genesisToken(&st, x))
	okWF := (wf == "ok") == (after == imported) || wf == "no-driver"
	okImp := e.assert(fmt.Sprintf("Q importagrees %s %s = ok", genesisToken(&st, x), genesisToken(&st2, x2)))
	// both chains up to and including the next payout block (a Send pays a fee, so that there is something to distribute);
	// the emission and the balance of the zero address depend on the safe reward only, not on the recomputed stake values (F15)
	behaviour := ""
	{
		equalAtExport := len(Delta(DumpState(&st), DumpState(&st2))) == 0
		twin = n2
		send := h.G.Build(tx.TypeSend, tx.SendData{Coin: 0, To: h.W.Addrs[1], Value: big.NewInt(1)}, rich, 0,
			func(t *tx.Transaction) { t.GasPrice = 1; t.Payload = nil; t.ServiceData = nil })
		okb := true
		if _, okb = block(send.Raw); okb {
			for n.Height%n.Period != 0 && okb {
				_, okb = block()
			}
		}
		twin = nil
		if okb {
			zero := func(nd *Node) string {
				return bs(nd.App.CurrentState().Accounts().GetBalance(types.Address{}, 0))
			}
			em := func(nd *Node) string { return bs(nd.App.VerifAppDB().Emission()) }
			if zero(n) != zero(n2) || em(n) != em(n2) {
				behaviour = fmt.Sprintf("; after the same %d blocks (payout block %d): balance of the zero address %s on the original, %s on the imported chain; emission %s vs %s",
					n.Height-exportedAt, n.Height, zero(n), zero(n2), em(n), em(n2))
			} else {
				behaviour = fmt.Sprintf("; emission and zero-address balance equal after the payout block %d", n.Height)
			}
			if equalAtExport {
				sa, _ := n.Export()
				sb, _ := n2.Export()
				da, db := DumpState(&sa), DumpState(&sb)
				delete(da, "app maxgas")
				delete(db, "app maxgas")
				if diff := Delta(da, db); len(diff) > 0 {
					behaviour += fmt.Sprintf(" (the exports of the two chains were equal at height %d and differ in %d entries now)", exportedAt, len(diff))
				} else {
					behaviour += " (exports of the two chains equal)"
				}
			}
		}
	}
	e.res.Notes["safe_reward_probe"] = e.res.Notes["safe_reward_probe"].(string) + behaviour
	if after != imported {
		e.failed = true
		dst := fmt.Sprintf("%s/export2-safe-reward-%d.txt", e.keep, seed)
		ioutil.WriteFile(dst, []byte(fmt.Sprintf("profile=mixed seed=%d: block 1 = daily price update; block 2 = SellSwapPool of %s BIP into pool (0,1993) by %x; empty blocks up to height %d (next daily update: the price fell by more than 10%%), export there\noriginal chain: %s (price record off=%v last=%s)\nchain imported from its export: %s\nmodel: wellformed=%s importagrees=%v\n%s\n",
			seed, amount, rich[:], exportedAt, after, st.PrevReward.Off, st.PrevReward.Reward, imported, wf, okImp, behaviour)), 0o644)
		e.res.viol("C11", "safe-reward-lost-on-import: the exported genesis carries one reward (PrevReward.Reward) and InitChain stores it as reward and safe reward; original chain "+after+", imported chain "+imported+behaviour, dst)
	}
	if !okWF || !okImp {
		e.failed = true
		e.res.viol("C11", fmt.Sprintf("model-import-differs-from-node (safe-reward probe): wellformed=%s, node changed the reward pair: %v, importagrees: %v %s", wf, after != imported, okImp, clipModel(lastFail(e.sink))), "")
	}
}
