package main

import (
	"math/big"
	"strings"

	"github.com/MinterTeam/minter-go-node/formula"
)

// OracleAnswer answers a model oracle question by calling the real code.
func OracleAnswer(q string) string {
	defer func() { recover() }()
	f := strings.Fields(q)
	if len(f) == 0 {
		return "ERR"
	}
	bigs := func(i int) *big.Int {
		v, ok := new(big.Int).SetString(f[i], 10)
		if !ok {
			panic("bad int")
		}
		return v
	}
	u32 := func(i int) uint32 { return uint32(bigs(i).Uint64()) }
	switch f[0] {
	case "saleAmount":
		return formula.CalculateSaleAmount(bigs(1), bigs(2), u32(3), bigs(4)).String()
	case "saleReturn":
		return formula.CalculateSaleReturn(bigs(1), bigs(2), u32(3), bigs(4)).String()
	case "purchaseReturn":
		return formula.CalculatePurchaseReturn(bigs(1), bigs(2), u32(3), bigs(4)).String()
	case "purchaseAmount":
		return formula.CalculatePurchaseAmount(bigs(1), bigs(2), u32(3), bigs(4)).String()
	}
	return "ERR"
}
