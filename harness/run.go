package main

import (
	"bufio"
	"reflect"
	"unsafe"
	"math/rand"
	"encoding/hex"
	"fmt"
	"io"
	"math/big"
	"os"
	"os/exec"
	"sort"
	"strings"
	"time"

	"github.com/MinterTeam/minter-go-node/coreV2/check"
	"github.com/MinterTeam/minter-go-node/coreV2/state/accounts"
	"github.com/MinterTeam/minter-go-node/coreV2/state/candidates"
	"github.com/MinterTeam/minter-go-node/coreV2/state/commission"
	"github.com/MinterTeam/minter-go-node/coreV2/state/swap"
	"github.com/tendermint/tendermint/crypto/ed25519"
	tx "github.com/MinterTeam/minter-go-node/coreV2/transaction"
	"github.com/MinterTeam/minter-go-node/coreV2/types"
	abci "github.com/tendermint/tendermint/abci/types"
)

// Sink receives protocol lines; it may be a file, a driver process, or both.
type Sink struct {
	file   *bufio.Writer
	f      *os.File
	cmd    *exec.Cmd
	in     io.WriteCloser
	out    *bufio.Reader
	Oracle func(q string) string
	// verdict lines received from the driver for the last op
	Last   []string
	Fails  []string
	NLines int
	LastOK string // last "OK <kind> …" line of the driver (carries the modelled/unmodelled/skipped counters)
}

func NewSink(tracePath string, driver string) (*Sink, error) {
	s := &Sink{Oracle: OracleAnswer}
	if tracePath != "" {
		f, err := os.Create(tracePath)
		if err != nil {
			return nil, err
		}
		s.f = f
		s.file = bufio.NewWriterSize(f, 1<<20)
	}
	if driver != "" {
		s.cmd = exec.Command(driver)
		in, err := s.cmd.StdinPipe()
		if err != nil {
			return nil, err
		}
		out, err := s.cmd.StdoutPipe()
		if err != nil {
			return nil, err
		}
		s.cmd.Stderr = os.Stderr
		if err := s.cmd.Start(); err != nil {
			return nil, err
		}
		s.in = in
		s.out = bufio.NewReaderSize(out, 1<<20)
	}
	return s, nil
}

func (s *Sink) raw(line string) {
	s.NLines++
	if s.file != nil {
		s.file.WriteString(line)
		s.file.WriteByte('\n')
	}
	if s.in != nil {
		io.WriteString(s.in, line+"\n")
	}
}

// Op sends one op (possibly multi-line: the op line followed by payload lines and a "." line)
// and, when a driver is attached, reads its reply up to the terminating "." line, answering oracle queries.
func (s *Sink) Op(lines ...string) []string {
	for _, l := range lines {
		s.raw(l)
	}
	s.Last = nil
	if s.out == nil {
		return nil
	}
	for {
		l, err := s.out.ReadString('\n')
		if err != nil {
			s.Fails = append(s.Fails, "DRIVER-EOF "+err.Error())
			s.out = nil
			return s.Last
		}
		l = strings.TrimRight(l, "\n")
		if l == "." {
			break
		}
		if strings.HasPrefix(l, "?") {
			ans := "ERR"
			if s.Oracle != nil {
				ans = s.Oracle(l[1:])
			}
			s.raw("!" + ans)
			continue
		}
		s.Last = append(s.Last, l)
		if strings.HasPrefix(l, "OK ") {
			s.LastOK = l
		}
		if strings.HasPrefix(l, "FAIL") || strings.HasPrefix(l, "MISMATCH") || strings.HasPrefix(l, "VIOL") {
			s.Fails = append(s.Fails, l)
		}
	}
	return s.Last
}

func (s *Sink) Close() {
	if s.file != nil {
		s.file.Flush()
		s.f.Close()
	}
	if s.in != nil {
		s.in.Close()
	}
	if s.cmd != nil {
		s.cmd.Wait()
	}
}

// HistOpts configures one generated history.
type HistOpts struct {
	Seed      int64
	Blocks    int
	TxPerBlk  int
	Gen       GenOpts
	Node      NodeOpts
	Weights   map[tx.TxType]int
	Malformed int
	CustomGas int
	Multisig  int
	AbsentPct int  // chance per validator per block of being absent (with runs)
	ByzPct    int  // chance per block of byzantine evidence
	CheckTx   bool // run CheckTx before each DeliverTx
	TimeMode  int  // 0: steady 5s from 09:00; 1: jumps that hit the 12-15h window
	Restarts  int  // percent chance of restart after a commit (disk nodes)
	Focus     string
	NearVotes bool // governance votes target the next few heights
	OrderDance int // percent of blocks that contain a fill-then-cancel pair on a committed order
	Warmup    int  // empty blocks (all validators sign, no evidence, no txs) before the generated ones: leaves the initial grace period
	DupByzPct int  // percent chance that an evidence entry is delivered twice in the same block
	RankDance  int // percent of transaction slots used for traffic around rank 100 of the candidates (txgen_extra.go)
	OwnerDance int // percent of transaction slots used for ticker hand-overs and their follow-ups (txgen_extra.go)
	Script    int  // percent of blocks that contain a scripted sequence of the directed generators (directed.go: Gen.Script)
	ExactPct  int  // see Gen.ExactPct (0: default 35, negative: off)
	OwnGasPct int  // see Gen.OwnGasPct (0: default 40, negative: off)
	GasPriceMax uint32 // see Gen.GasPriceMax
}

// Hist is a running history.
type Hist struct {
	O      HistOpts
	W      *World
	N      *Node
	G      *Gen
	S      *Sink
	View   Dump // latest Go-side view sent to the sink
	Univ   map[types.Address]bool
	Stats  map[string]int
	T      time.Time
	Absent map[types.TmAddress]int // remaining absence run
	Panics []string
	Ops    int
	FFH    map[uint64]bool // heights at which frozen funds may exist
	OrdBy  map[types.Address]int // orders owned (committed + created in the current block)
	byzSent map[types.TmAddress]bool
	RRng    *rand.Rand // separate stream for restart decisions (twins must generate the same history)
	Mirror  *Node    // optional twin node that receives the same ABCI calls
	MirrorDiffs []string
	MirrorProject func(Dump) Dump
	begun  bool            // BeginBlock of N.Height has run and the block is not committed yet
	TmSet  map[types.Pubkey]bool            // Tendermint's validator set (pubkeys) at the last begun height
	TmPend map[uint64][]abci.ValidatorUpdate // updates taking effect at height
	PrevSet map[types.Pubkey]bool           // validator set of the previous height (the one that signed LastCommitInfo)
	DebugHook func(*GenTx)
	PKs    map[types.Pubkey]bool // candidate public keys that ever appeared (block-list universe)
	Dance  *danceState           // memory of the scenario generators (txgen_extra.go)
}

var burnAddr = types.HexToAddress("Mx00cedde786b34d733d1dc96559253081572df2c6")

func NewHist(o HistOpts, sink *Sink) (*Hist, error) {
	if o.Blocks == 0 {
		o.Blocks = 30
	}
	if o.TxPerBlk == 0 {
		o.TxPerBlk = 5
	}
	types.CurrentChainID = types.ChainTestnet
	w := NewWorld(o.Seed, o.Gen)
	gen := w.BuildGenesis()
	if err := gen.Verify(); err != nil {
		return nil, fmt.Errorf("genesis verify: %v", err)
	}
	n, err := NewNode(gen, o.Node)
	if err != nil {
		return nil, err
	}
	h := &Hist{O: o, W: w, N: n, S: sink, View: Dump{}, Univ: map[types.Address]bool{}, Stats: map[string]int{}, Absent: map[types.TmAddress]int{}, FFH: map[uint64]bool{}, byzSent: map[types.TmAddress]bool{}}
	h.G = &Gen{W: w, N: n, Weights: o.Weights, MalformedPct: o.Malformed, CustomGasPct: o.CustomGas, MultisigPct: o.Multisig, NearVotes: o.NearVotes}
	if h.G.Weights == nil {
		h.G.Weights = DefaultWeights()
	}
	h.G.ExactPct, h.G.OwnGasPct, h.G.GasPriceMax, h.G.Sent = o.ExactPct, o.OwnGasPct, o.GasPriceMax, map[types.Address][][]byte{}
	if o.ExactPct == 0 {
		h.G.ExactPct = 35
	}
	if o.OwnGasPct == 0 {
		h.G.OwnGasPct = 40
	}
	for _, a := range w.Wallets {
		h.Univ[a] = true
	}
	h.PKs = map[types.Pubkey]bool{}
	for _, pk := range w.PubKeys {
		h.PKs[pk] = true
	}
	for _, a := range w.Addrs {
		h.Univ[a] = true
	}
	for _, m := range w.Multis {
		h.Univ[m.Addr] = true
	}
	h.Univ[types.Address{}] = true
	h.Univ[burnAddr] = true
	h.RRng = rand.New(rand.NewSource(o.Seed ^ 0x7e57))
	h.TmSet = map[types.Pubkey]bool{}
	h.TmPend = map[uint64][]abci.ValidatorUpdate{}
	for _, u := range n.InitVals {
		var pk types.Pubkey
		copy(pk[:], u.PubKey.GetEd25519())
		if u.Power > 0 {
			h.TmSet[pk] = true
		}
	}
	if len(h.TmSet) == 0 {
		for _, v := range gen.Validators {
			h.TmSet[v.PubKey] = true
		}
	}
	h.PrevSet = copySet(h.TmSet)
	h.T = time.Date(2024, 1, 10, 9, 0, 0, 0, time.UTC)
	// params + initial state
	sink.Op(fmt.Sprintf("P period=%d expire=%d unbond=%d move=%d jail=%d initial=%d chain=%d liveup=1", n.Period, n.ExpirePeriod, types.GetUnbondPeriod(), types.GetMovePeriod(), types.GetJailPeriod(), InitialHeight, types.CurrentChainID))
	h.sendFull("S init")
	// InitChain ends with updateValidators(): the validators in memory already carry the recalculated stakes
	// that reach the disk only with the first Commit. Give the driver the live view before the first BeginBlock.
	h.sendLive("S live")
	h.tieStats() // world_ties.go: evidence that the equal-stake boundary scenarios were reached
	return h, nil
}

func (h *Hist) appExtras(d Dump) {
	adb := h.N.App.VerifAppDB()
	if e := adb.Emission(); e != nil {
		d["db emission"] = e.String()
	}
	t, r0, r1, last, off := adb.GetPrice()
	if r0 != nil {
		d["db price"] = fmt.Sprintf("%d %s %s %s %v", t.UnixNano(), r0, r1, last, off)
	}
	d["app ncoins"] = fmt.Sprint(h.N.App.CurrentState().App().GetCoinsCount())
	rw, safe := h.N.App.CurrentState().App().Reward()
	d["app reward"] = fmt.Sprintf("%s %s", rw, safe)
	var vs []string
	for _, v := range adb.GetVersions() {
		vs = append(vs, fmt.Sprintf("%s@%d", v.Name, v.Height))
	}
	d["db versions"] = strings.Join(vs, ",")
	if c, ok := h.N.App.CurrentState().Candidates().(*candidates.Candidates); ok {
		d["app totalstakes"] = c.TotalStakes().String()
	}
}

// sendFull exports the committed state and sends the delta against the current view.
func (h *Hist) sendFull(op string) {
	st, pan := h.N.Export()
	if pan != "" {
		h.Panics = append(h.Panics, "export: "+pan)
		h.S.Op("X export-panic " + pan)
		return
	}
	h.N.nextOrder = uint32(st.NextOrderID)
	for _, f := range st.FrozenFunds {
		h.FFH[f.Height] = true
	}
	h.OrdBy = map[types.Address]int{}
	for _, p := range st.Pools {
		for _, o := range p.Orders {
			h.OrdBy[o.Owner]++
		}
	}
	d := DumpState(&st)
	h.appExtras(d)
	if op == "S commit" || op == "S restart" {
		// C09: what the running node holds in memory must be what it wrote to disk
		lp := h.liveProjection()
		for _, dv := range h.divergence(lp, d) {
			h.S.Op("X divergence " + dv)
			// a ticker owner that differs between memory and disk: after a restart somebody else controls the ticker
			// (C22: owner-only control of the registry; C05: minting / recreating is value control by authorisation)
			if who := ownerDivergence(dv); who != "" {
				h.S.Op("X viol C22 ticker-owner-cache-vs-disk " + who)
				h.S.Op("X viol C05 ticker-owner-cache-vs-disk " + who)
			}
		}
	}
	lines := []string{op}
	lines = append(lines, Delta(h.View, d)...)
	lines = append(lines, ".")
	h.View = d
	h.S.Op(lines...)
}

// liveProjection reads the live state: the node's own Export on the live CheckState (tree key universe,
// live values) supplemented by direct getters for balances, nonces and coins of the known universe
// (entities created in the current block are not yet in the tree).
func (h *Hist) liveProjection() Dump {
	cs := h.N.App.CurrentState()
	d := Dump{}
	// NOTE: CheckState.Export() must not be called on the live state: Candidates.Export reloads
	// stakes from the committed tree and clobbers uncommitted changes (it is only meant for a state
	// opened at a committed height). Only read-only getters that the API uses are called here.
	n := cs.App().GetCoinsCount()
	var ids []types.CoinID
	for i := uint32(1); i <= n; i++ {
		ids = append(ids, types.CoinID(i))
	}
	if n < 1993 {
		ids = append(ids, 1993)
	}
	for _, id := range ids {
		c := cs.Coins().GetCoin(id)
		if c == nil {
			continue
		}
		owner := "-"
		if info := cs.Coins().GetSymbolInfo(c.Symbol()); info != nil && info.OwnerAddress() != nil {
			o := info.OwnerAddress()
			owner = hexs(o[:])
		}
		d[fmt.Sprintf("c %d", id)] = fmt.Sprintf("%s %d %s %s %d %s %s %v %v", c.Symbol().String(), c.Version(), c.Volume(), c.Reserve(), c.Crr(), c.MaxSupply(), owner, c.Mintable, c.Burnable)
	}
	d["app ncoins"] = fmt.Sprint(n)
	for a := range h.Univ {
		ad := hexs(a[:])
		for _, b := range cs.Accounts().GetBalances(a) {
			if b.Value.Sign() != 0 {
				d[fmt.Sprintf("b %s %d", ad, b.Coin.ID)] = b.Value.String()
			}
		}
		if nn := cs.Accounts().GetNonce(a); nn != 0 {
			d["n "+ad] = fmt.Sprint(nn)
		}
	}
	d["app slashed"] = cs.App().GetTotalSlashed().String()
	d["app rewards"] = h.N.App.GetCurrentRewards().String()
	// block reward / safe reward: BeginBlock's price update (UpdatePriceFix in the 12-15h window) changes them in memory;
	// EndBlock of the same block already pays the new reward, so the monitors must see the live value, not the last commit's
	rw, safe := cs.App().Reward()
	d["app reward"] = fmt.Sprintf("%s %s", rw, safe)
	for _, v := range cs.Validators().GetValidators() {
		drop := " live"
		if v.IsToDrop() {
			drop = " drop"
		}
		d["v "+hexs(v.PubKey[:])] = validatorLine(v.GetTotalBipStake().String(), v.GetAccumReward().String(), v.AbsentTimes, v.PubKey) + drop
	}
	// candidates and stakes (slot order), waitlists of the universe, frozen funds at tracked heights
	for _, c := range cs.Candidates().GetCandidates() {
		d[fmt.Sprintf("cand %d", c.ID)] = fmt.Sprintf("%s %s %s %s %d %d %d %d %s", hexs(c.PubKey[:]), hexs(c.OwnerAddress[:]), hexs(c.RewardAddress[:]), hexs(c.ControlAddress[:]), c.Commission, c.Status, c.JailedUntil, c.LastEditCommissionHeight, c.GetTotalBipStake())
		for i, st := range cs.Candidates().GetStakes(c.PubKey) {
			d[fmt.Sprintf("st %d %s %d", c.ID, hexs(st.Owner[:]), st.Coin)] = fmt.Sprintf("%d %s %s", i, st.Value, st.BipValue)
		}
		for i, u := range liveUpdatesSafe(c) {
			d[fmt.Sprintf("up %d %d", c.ID, i)] = u
		}
		h.PKs[c.PubKey] = true
	}
	if c, ok := cs.Candidates().(*candidates.Candidates); ok {
		d["app totalstakes"] = c.TotalStakes().String()
	}
	// block list, restricted to the public keys that ever appeared
	for pk := range h.PKs {
		if cs.Candidates().IsBlockedPubKey(pk) {
			d["blk "+hexs(pk[:])] = "1"
		}
	}
	// multisig data and stake locks of the universe
	for a := range h.Univ {
		ad := hexs(a[:])
		acc := cs.Accounts().GetAccount(a)
		if acc != nil && acc.IsMultisig() {
			ms := acc.Multisig()
			var parts []string
			for i, x := range ms.Addresses {
				parts = append(parts, fmt.Sprintf("%s:%d", hexs(x[:]), ms.Weights[i]))
			}
			d["ms "+ad] = fmt.Sprintf("%d %s", ms.Threshold, strings.Join(parts, ","))
		}
		if l := cs.Accounts().GetLockStakeUntilBlock(a); l != 0 {
			d["ls "+ad] = fmt.Sprint(l)
		}
	}
	// used checks among the checks the generator issued
	for _, ic := range h.W.Checks {
		if c, err := check.DecodeFromBytes(ic.Raw); err == nil && cs.Checks().IsCheckUsed(c) {
			hh := c.Hash()
			d["uc "+hexs(hh[:])] = "1"
		}
	}
	// limit orders: the committed book (last export) overridden by the orders the node holds in memory
	for k, v := range h.View {
		if strings.HasPrefix(k, "o ") {
			d[k] = v
		}
	}
	if sw, ok := cs.Swap().(*swap.SwapV2); ok && !LightProjection {
		for _, lo := range liveOrders(sw) {
			k := fmt.Sprintf("o %d", lo.id)
			if lo.gone {
				delete(d, k)
			} else {
				d[k] = lo.val
			}
		}
		d["app nextorder"] = fmt.Sprint(liveNextOrder(sw, h.View["app nextorder"]))
	}
	for a := range h.Univ {
		if m := cs.WaitList().GetByAddress(a); m != nil {
			for _, it := range m.List {
				k := fmt.Sprintf("wl %d %s %d", it.CandidateId, hexs(a[:]), it.Coin)
				if old, ok := d[k]; ok {
					d[k] = old + "+" + it.Value.String()
				} else {
					d[k] = it.Value.String()
				}
			}
		}
	}
	// governance votes for the next heights (halts, commission tables, versions)
	for vh := h.N.Height; vh <= h.N.Height+24; vh++ {
		if m := cs.Halts().GetHaltBlocks(vh); m != nil {
			for _, it := range m.List {
				d[fmt.Sprintf("h %d %s", vh, hexs(it.Pubkey[:]))] = "1"
			}
		}
		for _, m := range cs.Commission().GetVotes(vh) {
			dg := commissionDigest(priceToCommission(commission.Decode(m.Price)))
			for _, pk := range m.Votes {
				d[fmt.Sprintf("cv %d %s", vh, hexs(pk[:]))] = dg
			}
		}
		for _, m := range cs.Updates().GetVotes(vh) {
			for _, pk := range m.Votes {
				d[fmt.Sprintf("uv %d %s", vh, hexs(pk[:]))] = m.Version
			}
		}
	}
	h.FFH[h.N.Height+types.GetUnbondPeriod()] = true
	h.FFH[h.N.Height+types.GetMovePeriod()] = true
	for fh := range h.FFH {
		if fh <= h.N.Height {
			// funds of a height that has begun are marked deleted in memory (removed from the tree at commit)
			if fh < h.N.Height {
				delete(h.FFH, fh)
				continue
			}
			if h.begun {
				continue
			}
		}
		if m := cs.FrozenFunds().GetFrozenFunds(fh); m != nil {
			for i, f := range m.List {
				ck := "-"
				if f.CandidateKey != nil {
					ck = hexs(f.CandidateKey[:])
				}
				d[fmt.Sprintf("ff %d %d", fh, i)] = fmt.Sprintf("%s %s %d %d %s %d", hexs(f.Address[:]), ck, f.CandidateID, f.Coin, f.Value, f.GetMoveToCandidateID())
			}
		}
	}
	// pools (reserves) through the read-only getter used by the API
	idsAll := append([]types.CoinID{0}, ids...)
	for i := 0; i < len(idsAll); i++ {
		for j := i + 1; j < len(idsAll); j++ {
			if cs.Swap().SwapPoolExist(idsAll[i], idsAll[j]) {
				r0, r1, id := cs.Swap().SwapPool(idsAll[i], idsAll[j])
				d[fmt.Sprintf("p %d %d", idsAll[i], idsAll[j])] = fmt.Sprintf("%d %s %s", id, r0, r1)
			}
		}
	}
	return d
}

// sendLive sends the delta of the live projection (keys b/n/c/app ncoins/app slashed only).
func (h *Hist) sendLive(op string) {
	d := h.liveProjection()
	var out []string
	for k, v := range d {
		if pv, ok := h.View[k]; !ok || pv != v {
			out = append(out, "="+k+"\t"+v)
			h.View[k] = v
		}
	}
	for k := range h.View {
		if liveKey(k) {
			if _, ok := d[k]; !ok {
				// only addresses in the universe are tracked live; block-list entries and used checks never disappear
				if strings.HasPrefix(k, "blk ") || strings.HasPrefix(k, "uc ") {
					continue
				}
				if !(strings.HasPrefix(k, "b ") || strings.HasPrefix(k, "n ") || strings.HasPrefix(k, "ms ") || strings.HasPrefix(k, "ls ")) || h.inUniv(k) {
					out = append(out, "-"+k)
					delete(h.View, k)
				}
			}
		}
	}
	sort.Strings(out)
	lines := append([]string{op}, out...)
	lines = append(lines, ".")
	h.S.Op(lines...)
}

// liveKey: dump keys maintained by the live projection.
func liveKey(k string) bool {
	for _, p := range []string{"b ", "n ", "c ", "p ", "cand ", "st ", "up ", "wl ", "ff ", "v ", "h ", "cv ", "uv ", "ms ", "ls ", "o ", "blk ", "uc "} {
		if strings.HasPrefix(k, p) {
			return true
		}
	}
	return false
}

func (h *Hist) inUniv(key string) bool {
	f := strings.Fields(key)
	if len(f) < 2 {
		return false
	}
	for a := range h.Univ {
		if hexs(a[:]) == f[1] {
			return true
		}
	}
	return false
}

func tagsOf(ev []abci.Event) map[string]string {
	m := map[string]string{}
	for _, e := range ev {
		for _, a := range e.Attributes {
			m[string(a.Key)] = string(a.Value)
		}
	}
	return m
}

// txLine renders a transaction for the model: decoded fields as the real decoder saw them.
func txLine(g *GenTx, code uint32, tags map[string]string) string {
	var sb strings.Builder
	fmt.Fprintf(&sb, "D code=%d note=%s %s raw=%x", code, g.Note, decodedFields(g.Raw), g.Raw)
	keys := make([]string, 0, len(tags))
	for k := range tags {
		keys = append(keys, k)
	}
	sort.Strings(keys)
	for _, k := range keys {
		v := tags[k]
		if strings.ContainsAny(v, " \t\n") || len(v) > 200 || k == "tx.commission_details" || k == "tx.pools" {
			continue
		}
		fmt.Fprintf(&sb, " %s=%s", k, v)
	}
	return sb.String()
}

func (h *Hist) stepTime(height uint64) time.Time {
	switch h.O.TimeMode {
	case 1:
		// jump so that period-start blocks often fall in the 12:00-14:59 window, > 3h apart
		if height%h.N.Period == 1 {
			h.T = h.T.Add(time.Duration(2+h.W.Rng.Intn(5)) * time.Hour)
		} else {
			h.T = h.T.Add(time.Duration(3+h.W.Rng.Intn(8)) * time.Second)
		}
	default:
		h.T = h.T.Add(time.Duration(3+h.W.Rng.Intn(6)) * time.Second)
	}
	return h.T
}

// Block executes one block. Returns false when the node died or halted.
func (h *Hist) Block() bool {
	n := h.N
	height := n.Height + 1
	t := h.stepTime(height)
	// Tendermint semantics: updates returned by EndBlock(h) take effect at h+2; LastCommitInfo of block h'
	// lists the validators of height h'-1.
	votes := h.commitVotes(height)
	warm := h.O.Warmup > 0 && height < uint64(InitialHeight)+uint64(h.O.Warmup)
	var vparts []string
	for i := range votes {
		a := votes[i].Addr
		if warm {
			// warm-up block: everybody signs
		} else if h.Absent[a] > 0 {
			h.Absent[a]--
			votes[i].Signed = false
		} else if h.O.AbsentPct > 0 && h.W.Rng.Intn(100) < h.O.AbsentPct {
			h.Absent[a] = 1 + h.W.Rng.Intn(16)
			votes[i].Signed = false
		}
		s := 1
		if !votes[i].Signed {
			s = 0
		}
		vparts = append(vparts, fmt.Sprintf("%x:%d", a[:], s))
	}
	var byz []types.TmAddress
	var bparts []string
	// evidence aimed at validators that have unbonding / moving funds maturing exactly now (high priority),
	// next block, or at the far end of the punishment window
	if h.O.ByzPct > 0 && len(votes) > 0 && !warm {
		var now, near []types.TmAddress
		keys := make([]string, 0, len(h.View))
		for k := range h.View {
			if strings.HasPrefix(k, "ff ") {
				keys = append(keys, k)
			}
		}
		sort.Strings(keys)
		for _, k := range keys {
			f := strings.Fields(k)
			vf := strings.Fields(h.View[k])
			if len(f) != 3 || len(vf) != 6 || vf[1] == "-" {
				continue
			}
			var pk types.Pubkey
			if b, err := hex.DecodeString(vf[1]); err == nil {
				copy(pk[:], b)
			}
			if !h.PrevSet[pk] && !h.TmSet[pk] {
				continue
			}
			if f[1] == fmt.Sprint(height) {
				now = append(now, tmAddrOf(pk))
			} else if f[1] == fmt.Sprint(height+1) || f[1] == fmt.Sprint(height+types.GetUnbondPeriod()) || f[1] == fmt.Sprint(height+types.GetUnbondPeriod()+1) {
				near = append(near, tmAddrOf(pk))
			}
		}
		var a *types.TmAddress
		if len(now) > 0 && h.W.Rng.Intn(100) < 60 {
			a = &now[h.W.Rng.Intn(len(now))]
		} else if len(near) > 0 && h.W.Rng.Intn(100) < 20 {
			a = &near[h.W.Rng.Intn(len(near))]
		}
		if a != nil && h.futureSetSize() > 2 && !h.byzSent[*a] {
			h.byzSent[*a] = true
			byz = append(byz, *a)
			bparts = append(bparts, fmt.Sprintf("%x", a[:]))
		}
	}
	if len(byz) == 0 && h.O.ByzPct > 0 && !warm && h.W.Rng.Intn(100) < h.O.ByzPct && len(votes) > 0 {
		a := votes[h.W.Rng.Intn(len(votes))].Addr
		if h.W.Rng.Intn(6) == 0 {
			h.W.Rng.Read(a[:])
		}
		byz = append(byz, a)
		bparts = append(bparts, fmt.Sprintf("%x", a[:]))
	}
	if len(byz) > 0 && h.O.DupByzPct > 0 && h.W.Rng.Intn(100) < h.O.DupByzPct {
		// Tendermint may deliver several pieces of evidence against one validator in a block
		byz = append(byz, byz[0])
		bparts = append(bparts, bparts[0])
	}
	stopsBefore := n.App.VerifStopCount()
	pan := n.Begin(height, t, votes, byz)
	h.begun = true
	if h.Mirror != nil {
		if mp := h.Mirror.Begin(height, t, votes, byz); mp != pan {
			h.MirrorDiffs = append(h.MirrorDiffs, fmt.Sprintf("BeginBlock h=%d: panic %q vs %q", height, pan, mp))
		}
	}
	h.Ops++
	h.S.Op(fmt.Sprintf("B h=%d t=%d votes=%s byz=%s panic=%q", height, t.Unix(), strings.Join(vparts, ","), strings.Join(bparts, ","), pan))
	if pan != "" {
		h.Panics = append(h.Panics, fmt.Sprintf("BeginBlock h=%d: %s", height, pan))
		return false
	}
	if n.App.VerifStopCount() != stopsBefore {
		h.S.Op(fmt.Sprintf("H h=%d halted", height))
		h.Stats["halt"]++
		return false
	}
	// coverage of BeginBlock's branches (what the driver's BeginBlock model was compared on)
	pre := map[string]string{}
	for k, v := range h.View {
		if strings.HasPrefix(k, "cand ") || strings.HasPrefix(k, "v ") || k == "app slashed" {
			pre[k] = v
		} else if strings.HasPrefix(k, fmt.Sprintf("ff %d ", height)) {
			h.Stats["begin.matured"]++
			if f := strings.Fields(v); len(f) == 6 && f[5] != "0" {
				h.Stats["begin.matured-move"]++
				if _, ok := h.View["cand "+f[5]]; !ok {
					h.Stats["begin.matured-move-target-gone"]++ // re-frozen as an unbond (fix for F9)
				}
			}
		}
	}
	h.sendLive("S begin")
	h.Stats["begin.blocks"]++
	h.Stats["begin.evidence"] += len(byz)
	for k, v := range pre {
		nv := h.View[k]
		if nv == v {
			continue
		}
		switch {
		case k == "app slashed":
			h.Stats["begin.slashing-blocks"]++
		case strings.HasPrefix(k, "v ") && strings.HasSuffix(nv, " drop"):
			h.Stats["begin.validator-dropped"]++
		case strings.HasPrefix(k, "cand "):
			of, nf := strings.Fields(v), strings.Fields(nv)
			if len(of) == 9 && len(nf) == 9 {
				if of[5] != nf[5] {
					h.Stats["begin.switched-off"]++
				}
				if of[6] != nf[6] {
					h.Stats["begin.jailed"]++
				}
			}
		}
	}
	ntx := h.W.Rng.Intn(h.O.TxPerBlk*2 + 1)
	var queue []*GenTx
	if h.O.OrderDance > 0 && h.W.Rng.Intn(100) < h.O.OrderDance {
		ntx += 2
	}
	danceAt := -1
	if h.O.OrderDance > 0 && ntx >= 2 && h.W.Rng.Intn(100) < h.O.OrderDance {
		danceAt = h.W.Rng.Intn(ntx - 1)
	}
	// scripted sequences of the directed generators; a wallet life cycle in progress gets a slot in every block
	scriptAt := -1
	if h.O.Script > 0 && !warm && (h.G.wallet != nil || h.W.Rng.Intn(100) < h.O.Script) {
		ntx += 2
		scriptAt = h.W.Rng.Intn(ntx - 1)
	}
	if warm {
		ntx, danceAt = 0, -1
	}
	for i := 0; i < ntx; i++ {
		var g *GenTx
		if i == danceAt {
			queue = h.G.orderDance(h.View)
		}
		if i == scriptAt && len(queue) == 0 {
			queue = h.G.Script(height, h.View)
			if i+len(queue) > ntx {
				ntx = i + len(queue)
			}
			if len(queue) > 0 {
				h.Stats["dance."+strings.SplitN(strings.TrimPrefix(strings.TrimPrefix(queue[0].Note, "dance:"), "replay:"), ":", 2)[0]]++
			}
		}
		if len(queue) > 0 {
			g = queue[0]
			queue = queue[1:]
			if !strings.HasPrefix(g.Note, "replay:") {
				// re-sign with the current nonce (an earlier tx of the same sender may have been accepted meanwhile)
				note := g.Note
				g = h.G.Build(g.Type, g.Data, g.Sender, g.GasCoin, func(t *tx.Transaction) { t.GasPrice = 1; t.Payload = nil; t.ServiceData = nil })
				g.Note = note
			}
		} else if q := h.extraTxs(height); len(q) > 0 { // scenario generators of the profile (txgen_extra.go)
			g, queue = q[0], q[1:]
		} else {
			g = h.G.Next(height)
		}
		if h.O.CheckTx {
			bookBefore := h.bookView()
			cr, cp := n.Check(g.Raw)
			h.S.Op(fmt.Sprintf("K code=%d panic=%q raw=%x", cr.Code, cp, g.Raw))
			if cp == "" {
				// C06: CheckTx must not change what DeliverTx will see: the live projection (equal to the view since the last
				// operation) and the order books as the node would walk them
				for _, dv := range h.checkTxChanged(bookBefore) {
					h.S.Op("X viol C06 checktx-changed-state " + dv)
				}
			}
			if cp != "" {
				h.Panics = append(h.Panics, fmt.Sprintf("CheckTx h=%d: %s raw=%x", height, cp, g.Raw))
				return false
			}
		}
		if h.DebugHook != nil {
			h.DebugHook(g)
		}
		r, dp := n.Deliver(g.Raw)
		h.Ops++
		if h.Mirror != nil {
			mr, mp := h.Mirror.Deliver(g.Raw)
			if mr.Code != r.Code || mp != dp || fmt.Sprint(tagsOf(mr.Events)) != fmt.Sprint(tagsOf(r.Events)) {
				h.MirrorDiffs = append(h.MirrorDiffs, fmt.Sprintf("DeliverTx h=%d type=%d: code %d vs %d, tags %v vs %v", height, g.Type, r.Code, mr.Code, tagsOf(r.Events), tagsOf(mr.Events)))
			}
		}
		if dp != "" {
			h.S.Op(fmt.Sprintf("D code=999 %s raw=%x panic=%q", decodedFields(g.Raw), g.Raw, dp))
			h.Panics = append(h.Panics, fmt.Sprintf("DeliverTx h=%d type=%d: %s raw=%x", height, g.Type, dp, g.Raw))
			return false
		}
		tags := tagsOf(r.Events)
		h.Stats[fmt.Sprintf("tx.%02d.%s", g.Type, okstr(r.Code))]++
		if g.Note == "wl-source" {
			h.Stats[fmt.Sprintf("gen.wl-source.%02d.%s", g.Type, okstr(r.Code))]++
		}
		if r.Code != 0 {
			h.Stats[fmt.Sprintf("err.%d", r.Code)]++
		}
		if r.Code == 0 && g.Type == tx.TypeLock {
			if ld, ok := g.Data.(tx.LockData); ok {
				h.FFH[uint64(ld.DueBlock)] = true
			}
		}
		if r.Code == 0 && g.Type == tx.TypeCreateMultisig {
			h.Univ[accounts.CreateMultisigAddress(g.Sender, g.Nonce)] = true
		}
		if r.Code == 0 && strings.HasPrefix(g.Note, "dance:partial-fill:") {
			var oid uint32
			fmt.Sscanf(strings.TrimPrefix(g.Note, "dance:partial-fill:"), "%d", &oid)
			if o := n.App.CurrentState().Swap().GetOrder(oid); o != nil && o.WantBuy != nil && o.WantBuy.Sign() == 1 {
				h.Stats["orders.partial_fill_left"]++ // the order stays in the book, the pool price sits on it
			}
		}
		if r.Code == 0 && h.isWallet(g.Sender) && len(h.G.Sent[g.Sender]) < 8 {
			h.G.Sent[g.Sender] = append(h.G.Sent[g.Sender], g.Raw)
		}
		h.G.Recent = append(h.G.Recent, g.Raw)
		if len(h.G.Recent) > 50 {
			h.G.Recent = h.G.Recent[1:]
		}
		if _, charged := tags["tx.fail_fee"]; r.Code != 0 && charged {
			// failed inside Run: the failure fee was taken, the nonce is unchanged (the same bytes pass the prologue again)
			h.G.FailedRun = append(h.G.FailedRun, g.Raw)
			if len(h.G.FailedRun) > 50 {
				h.G.FailedRun = h.G.FailedRun[1:]
			}
			if strings.HasPrefix(g.Note, "malformed:replay") {
				h.Stats["c26.redelivered-failed-charged"]++
			}
		} else if strings.HasPrefix(g.Note, "malformed:replay") {
			h.Stats["c26.redelivered-free"]++
		}
		h.S.Op(txLine(g, r.Code, tags) + fmt.Sprintf(" x.selforders=%d", h.OrdBy[g.Sender]))
		if r.Code == 0 && g.Type == tx.TypeAddLimitOrder {
			h.OrdBy[g.Sender]++
		}
		h.sendLive("S tx")
	}
	er, ep := n.End(height)
	h.Ops++
	if h.Mirror != nil {
		mer, mep := h.Mirror.End(height)
		if mep != ep || (h.MirrorProject == nil && fmtUpdates(mer.ValidatorUpdates) != fmtUpdates(er.ValidatorUpdates)) {
			h.MirrorDiffs = append(h.MirrorDiffs, fmt.Sprintf("EndBlock h=%d: updates %s vs %s (%q/%q)", height, fmtUpdates(er.ValidatorUpdates), fmtUpdates(mer.ValidatorUpdates), ep, mep))
		}
	}
	if ep != "" {
		h.S.Op(fmt.Sprintf("E h=%d panic=%q", height, ep))
		h.Panics = append(h.Panics, fmt.Sprintf("EndBlock h=%d: %s", height, ep))
		return false
	}
	var ups []string
	for _, u := range er.ValidatorUpdates {
		ups = append(ups, fmt.Sprintf("%x:%d", u.PubKey.GetEd25519(), u.Power))
	}
	h.S.Op(fmt.Sprintf("E h=%d updates=%s maxgas=%d", height, strings.Join(ups, ","), er.ConsensusParamUpdates.Block.MaxGas))
	if len(er.ValidatorUpdates) > 0 {
		h.TmPend[height+2] = append(h.TmPend[height+2], er.ValidatorUpdates...)
	}
	ordersBefore := 0
	for k := range h.View {
		if strings.HasPrefix(k, "o ") {
			ordersBefore++
		}
	}
	h.sendLive("S end")
	ordersAfter := 0
	for k := range h.View {
		if strings.HasPrefix(k, "o ") {
			ordersAfter++
		}
	}
	if ordersAfter < ordersBefore {
		// EndBlock removes orders only by expiry (height % 12 == 6, orders older than the expire period)
		h.Stats["end.orders-expired"] += ordersBefore - ordersAfter
		h.Stats["end.expiry-blocks"]++
	}
	if h.futureSetEmpty() {
		// Tendermint refuses an update that empties the validator set: the chain cannot continue
		h.S.Op(fmt.Sprintf("H h=%d empty-validator-set", height))
		h.Stats["halt-empty-valset"]++
		return false
	}
	hash, cp := n.Commit()
	h.Ops++
	if h.Mirror != nil {
		_, mcp := h.Mirror.Commit()
		if mcp != cp {
			h.MirrorDiffs = append(h.MirrorDiffs, fmt.Sprintf("Commit h=%d: %q vs %q", height, cp, mcp))
		} else if cp == "" {
			s1, _ := n.Export()
			s2, _ := h.Mirror.Export()
			d1, d2 := DumpState(&s1), DumpState(&s2)
			delete(d1, "app maxgas") // derived from the block-time history, which a genesis does not carry
			delete(d2, "app maxgas")
			if h.MirrorProject != nil {
				d1, d2 = h.MirrorProject(d1), h.MirrorProject(d2)
			}
			if diff := Delta(d1, d2); len(diff) > 0 {
				sort.Strings(diff)
				if len(diff) > 6 {
					diff = diff[:6]
				}
				h.MirrorDiffs = append(h.MirrorDiffs, fmt.Sprintf("export after h=%d differs: %s", height, strings.Join(diff, " ; ")))
			}
		}
	}
	if cp != "" {
		h.S.Op(fmt.Sprintf("C h=%d panic=%q", height, cp))
		h.Panics = append(h.Panics, fmt.Sprintf("Commit h=%d: %s", height, cp))
		return false
	}
	h.S.Op(fmt.Sprintf("C h=%d hash=%x", height, hash))
	h.begun = false
	h.sendFull("S commit")
	if h.O.Restarts > 0 && n.Disk && h.RRng.Intn(100) < h.O.Restarts {
		before := h.liveProjection() // what the process that is about to stop holds in memory (restartlive.go)
		k := 1 + h.RRng.Intn(2)
		for i := 0; i < k; i++ {
			if err := n.Restart(); err != nil {
				h.Panics = append(h.Panics, "restart: "+err.Error())
				h.S.Op(fmt.Sprintf("R h=%d panic=%q", height, err.Error()))
				return false
			}
		}
		h.G.N = n
		h.Stats["restart"] += k
		h.S.Op(fmt.Sprintf("R h=%d n=%d", height, k))
		h.sendFull("S restart")
		h.restartLive(before)
	}
	return true
}

// divergence compares the live projection with the export re-read from disk.
func (h *Hist) divergence(lp, d Dump) []string {
	var out []string
	norm := func(k, v string) string {
		if strings.HasPrefix(k, "v ") {
			f := strings.Fields(v)
			if len(f) > 4 {
				return strings.Join(f[:4], " ")
			}
		}
		return v
	}
	for k, lv := range lp {
		if !liveKey(k) {
			continue
		}
		dv, ok := d[k]
		if !ok {
			if strings.HasPrefix(k, "v ") || strings.HasPrefix(k, "wl ") {
				// validators export / waitlist text may legitimately lag in format; still report
			}
			out = append(out, fmt.Sprintf("%s live=%q disk=absent", k, lv))
			continue
		}
		if norm(k, lv) != norm(k, dv) {
			out = append(out, fmt.Sprintf("%s live=%q disk=%q", k, lv, dv))
		}
	}
	for k, dv := range d {
		if !liveKey(k) {
			continue
		}
		if _, ok := lp[k]; ok {
			continue
		}
		f := strings.Fields(k)
		switch f[0] {
		case "b", "n", "ms", "ls":
			if !h.inUniv(k) {
				continue
			}
		case "blk", "uc":
			// only the block-list entries / checks of the known universe are read live
			continue
		case "wl":
			if !h.inUniv("b " + f[2]) {
				continue
			}
		case "ff":
			var fh uint64
			fmt.Sscan(f[1], &fh)
			if !h.FFH[fh] {
				h.FFH[fh] = true
				continue
			}
		case "h", "cv", "uv":
			var vh uint64
			fmt.Sscan(f[1], &vh)
			if vh > h.N.Height+24 || vh < h.N.Height {
				continue
			}
		}
		out = append(out, fmt.Sprintf("%s live=absent disk=%q", k, dv))
	}
	sort.Strings(out)
	if len(out) > 8 {
		out = out[:8]
	}
	return out
}

func (h *Hist) futureSetEmpty() bool { return h.futureSetSize() == 0 }

func (h *Hist) futureSetSize() int {
	set := copySet(h.TmSet)
	var hs []uint64
	for k := range h.TmPend {
		hs = append(hs, k)
	}
	sort.Slice(hs, func(i, j int) bool { return hs[i] < hs[j] })
	for _, k := range hs {
		for _, u := range h.TmPend[k] {
			var pk types.Pubkey
			copy(pk[:], u.PubKey.GetEd25519())
			if u.Power == 0 {
				delete(set, pk)
			} else {
				set[pk] = true
			}
		}
	}
	return len(set)
}

func fmtUpdates(us []abci.ValidatorUpdate) string {
	var p []string
	for _, u := range us {
		p = append(p, fmt.Sprintf("%x:%d", u.PubKey.GetEd25519(), u.Power))
	}
	return strings.Join(p, ",")
}

func copySet(m map[types.Pubkey]bool) map[types.Pubkey]bool {
	r := map[types.Pubkey]bool{}
	for k, v := range m {
		r[k] = v
	}
	return r
}

func tmAddrOf(pk types.Pubkey) types.TmAddress {
	var a types.TmAddress
	copy(a[:], ed25519.PubKey(pk[:]).Address().Bytes())
	return a
}

// commitVotes advances the emulated Tendermint validator set to `height` and returns the voters of height-1.
func (h *Hist) commitVotes(height uint64) []Vote {
	prev := copySet(h.TmSet) // set of height-1 (TmSet is the set of the last begun height)
	if ups, ok := h.TmPend[height]; ok {
		for _, u := range ups {
			var pk types.Pubkey
			copy(pk[:], u.PubKey.GetEd25519())
			if u.Power == 0 {
				delete(h.TmSet, pk)
			} else {
				h.TmSet[pk] = true
			}
		}
		delete(h.TmPend, height)
	}
	h.PrevSet = prev
	var pks []types.Pubkey
	for pk := range prev {
		pks = append(pks, pk)
	}
	sort.Slice(pks, func(i, j int) bool { return string(pks[i][:]) < string(pks[j][:]) })
	var res []Vote
	for _, pk := range pks {
		res = append(res, Vote{Addr: tmAddrOf(pk), Signed: true})
	}
	return res
}

func okstr(c uint32) string {
	if c == 0 {
		return "ok"
	}
	return "rej"
}

// blockTwin runs one block on the history's node and on a twin, reporting differences.
func (h *Hist) blockTwin(twin *Node, res *ModeResult, fail func(string)) bool {
	h.Mirror = twin
	ok := h.Block()
	diverged := len(h.MirrorDiffs) > 0
	for _, d := range h.MirrorDiffs {
		fail("imported chain behaves differently: " + d)
	}
	h.MirrorDiffs = nil
	// stop this twin once it diverged; violations of EARLIER histories of the run (e.g. the known finding F15) do not stop it
	return ok && !diverged
}

func (h *Hist) Run() {
	for i := 0; i < h.O.Blocks+h.O.Warmup; i++ {
		if !h.Block() {
			break
		}
	}
	// evidence counters of the model run (as of the last commit)
	for _, f := range strings.Fields(h.S.LastOK) {
		kv := strings.SplitN(f, "=", 2)
		if len(kv) == 2 && (kv[0] == "modelled" || kv[0] == "unmodelled" || kv[0] == "skipped" || kv[0] == "oracle") {
			var n int
			fmt.Sscan(kv[1], &n)
			h.Stats["model."+kv[0]] = n
		}
	}
}

var _ = big.NewInt


// ---- read-only views of in-memory state that has no getter (observation only) ----

func bigAt(v reflect.Value) *big.Int {
	if v.IsNil() {
		return big.NewInt(0)
	}
	return (*big.Int)(unsafe.Pointer(v.Pointer()))
}

// liveUpdates renders the pending stake updates of a candidate in list order ("owner coin value bip").
// LightProjection: the live projection skips everything it reads by reflection from unexported, lock-protected fields
// (order lists, pending updates). Set for histories that run next to concurrent reader goroutines (C25): the harness
// itself must not race with them.
var LightProjection bool

func liveUpdatesSafe(c *candidates.Candidate) []string {
	if LightProjection {
		return nil
	}
	return liveUpdates(c)
}

func liveUpdates(c *candidates.Candidate) []string {
	var out []string
	rv := reflect.ValueOf(c).Elem().FieldByName("updates")
	for i := 0; i < rv.Len(); i++ {
		e := rv.Index(i)
		if e.IsNil() {
			continue
		}
		st := e.Elem()
		ow := st.FieldByName("Owner")
		var a types.Address
		for j := 0; j < 20; j++ {
			a[j] = byte(ow.Index(j).Uint())
		}
		out = append(out, fmt.Sprintf("%s %d %s %s", hexs(a[:]), st.FieldByName("Coin").Uint(), bigAt(st.FieldByName("Value")), bigAt(st.FieldByName("BipValue"))))
	}
	return out
}

type liveOrder struct {
	id   uint32
	gone bool
	val  string
}

// liveOrders lists every limit order the node currently holds in memory (stored in sorted-pair orientation).
func liveOrders(sw *swap.SwapV2) []liveOrder {
	var out []liveOrder
	pairs := reflect.ValueOf(sw).Elem().FieldByName("pairs")
	it := pairs.MapRange()
	for it.Next() {
		pv := it.Value()
		if pv.IsNil() {
			continue
		}
		key := it.Key()
		c0, c1 := key.Field(0).Uint(), key.Field(1).Uint()
		ol := pv.Elem().FieldByName("orders")
		if ol.IsNil() {
			continue
		}
		lst := ol.Elem().FieldByName("list")
		oi := lst.MapRange()
		for oi.Next() {
			id := uint32(oi.Key().Uint())
			lv := oi.Value()
			if lv.IsNil() {
				out = append(out, liveOrder{id: id, gone: true})
				continue
			}
			l := (*swap.Limit)(unsafe.Pointer(lv.Pointer()))
			if l.WantBuy == nil || l.WantSell == nil || l.WantBuy.Sign() == 0 || l.WantSell.Sign() == 0 {
				out = append(out, liveOrder{id: id, gone: true})
				continue
			}
			out = append(out, liveOrder{id: id, val: fmt.Sprintf("%d %d %v %s %s %s %d", c0, c1, !l.IsBuy, l.WantBuy, l.WantSell, hexs(l.Owner[:]), l.Height)})
		}
	}
	return out
}

func liveNextOrder(sw *swap.SwapV2, committed string) uint64 {
	n := reflect.ValueOf(sw).Elem().FieldByName("nextOrderID").Uint()
	if n != 0 {
		return n
	}
	var c uint64
	fmt.Sscan(committed, &c)
	return c
}


func (h *Hist) isWallet(a types.Address) bool {
	for _, w := range h.W.Wallets {
		if w == a {
			return true
		}
	}
	return false
}

// ownerDivergence recognises a divergence line of a coin record (c <id> live="…" disk="…") whose owner field differs.
func ownerDivergence(dv string) string {
	if !strings.HasPrefix(dv, "c ") {
		return ""
	}
	i, j := strings.Index(dv, "live=\""), strings.Index(dv, "disk=\"")
	if i < 0 || j < 0 || j < i {
		return ""
	}
	lf := strings.Fields(strings.Trim(strings.TrimSpace(dv[i+5:j]), "\""))
	df := strings.Fields(strings.Trim(strings.TrimSpace(dv[j+5:]), "\""))
	if len(lf) != 9 || len(df) != 9 || lf[6] == df[6] {
		return ""
	}
	return fmt.Sprintf("coin=%s ticker=%s live-owner=%s disk-owner=%s", strings.Fields(dv)[1], lf[0], lf[6], df[6])
}

// bookView renders the bookkeeping the node consults when it walks an order book: the deleted / unsorted marks of every
// known order on the live pair (an order marked deleted is skipped by every trade until the next commit). Read-only: nothing
// is loaded from disk. The cached best-first id lists are not part of it: CheckTx legitimately fills those caches.
func (h *Hist) bookView() Dump {
	d := Dump{}
	sw, ok := h.N.App.CurrentState().Swap().(*swap.SwapV2)
	if !ok {
		return d
	}
	for k, v := range h.View {
		if !strings.HasPrefix(k, "o ") {
			continue
		}
		var id uint32
		var c0, c1 uint64
		if _, err := fmt.Sscanf(k, "o %d", &id); err != nil {
			continue
		}
		if _, err := fmt.Sscanf(v, "%d %d", &c0, &c1); err != nil {
			continue
		}
		p := sw.Pair(types.CoinID(c0), types.CoinID(c1))
		if p == nil {
			continue
		}
		_, deleted, unsorted := swap.VerifOrderState(p, id)
		d[fmt.Sprintf("book-order %d", id)] = fmt.Sprintf("deleted=%v unsorted=%v", deleted, unsorted)
	}
	return d
}

// checkTxChanged compares the node's live state after a CheckTx with the state before it.
func (h *Hist) checkTxChanged(bookBefore Dump) []string {
	var out []string
	lp := h.liveProjection()
	for k, v := range lp {
		if !liveKey(k) {
			continue
		}
		if pv, ok := h.View[k]; !ok || pv != v {
			out = append(out, fmt.Sprintf("%s before=%q after=%q", k, h.View[k], v))
		}
	}
	for k, pv := range h.View {
		if !liveKey(k) {
			continue
		}
		if _, ok := lp[k]; ok {
			continue
		}
		if strings.HasPrefix(k, "blk ") || strings.HasPrefix(k, "uc ") {
			continue
		}
		if (strings.HasPrefix(k, "b ") || strings.HasPrefix(k, "n ") || strings.HasPrefix(k, "ms ") || strings.HasPrefix(k, "ls ")) && !h.inUniv(k) {
			continue
		}
		out = append(out, fmt.Sprintf("%s before=%q after=absent", k, pv))
	}
	after := h.bookView()
	for k, v := range bookBefore {
		if after[k] != v {
			out = append(out, fmt.Sprintf("%s before=%q after=%q", k, v, after[k]))
		}
	}
	sort.Strings(out)
	if len(out) > 4 {
		out = out[:4]
	}
	return out
}
