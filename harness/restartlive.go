package main

import (
	"fmt"
	"sort"
	"strings"
)

// restartLive compares what the stopped process held in memory right after its last commit (`before`: the live projection, i.e.
// what the node answers queries from and authorises transactions against) with what the restarted process holds. The export
// sent with `S restart` cannot show such a difference: it is read from the disk before and after the restart.
// Every difference is sent as `X restart-live <key> before=<v> after=<v>`; the driver turns it into VIOL C09 and, for
// authorization data, VIOL C05 / VIOL C22.
func (h *Hist) restartLive(before Dump) {
	after := h.liveProjection()
	norm := func(k, v string) string {
		if strings.HasPrefix(k, "v ") { // the live form carries a 5th field (live/drop) that the disk form does not
			if f := strings.Fields(v); len(f) > 4 {
				return strings.Join(f[:4], " ")
			}
		}
		return v
	}
	var out []string
	for k, bv := range before {
		if !liveKey(k) {
			continue
		}
		av, ok := after[k]
		if !ok {
			out = append(out, fmt.Sprintf("X restart-live %s before=%s after=absent", strings.ReplaceAll(k, " ", "_"), strings.ReplaceAll(bv, " ", "_")))
		} else if norm(k, av) != norm(k, bv) {
			out = append(out, fmt.Sprintf("X restart-live %s before=%s after=%s", strings.ReplaceAll(k, " ", "_"), strings.ReplaceAll(bv, " ", "_"), strings.ReplaceAll(av, " ", "_")))
		}
	}
	for k, av := range after {
		if !liveKey(k) {
			continue
		}
		if _, ok := before[k]; !ok {
			out = append(out, fmt.Sprintf("X restart-live %s before=absent after=%s", strings.ReplaceAll(k, " ", "_"), strings.ReplaceAll(av, " ", "_")))
		}
	}
	sort.Strings(out)
	if len(out) > 12 {
		out = out[:12]
	}
	h.Stats["restart.live-compared"]++
	for _, l := range out {
		h.S.Op(l)
	}
}
