package main

import (
	"sort"
	"crypto/ecdsa"
	"encoding/binary"
	"fmt"
	"math/big"
	"math/rand"

	"github.com/MinterTeam/minter-go-node/coreV2/types"
	"github.com/MinterTeam/minter-go-node/crypto"
	"github.com/MinterTeam/minter-go-node/helpers"
)

// World is what the generators know about a chain: keys, coins, candidates.
type World struct {
	Rng     *rand.Rand
	Keys    []*ecdsa.PrivateKey
	Addrs   []types.Address
	KeyOf   map[types.Address]*ecdsa.PrivateKey
	Multis  []MultiAcc
	PubKeys []types.Pubkey // candidate public keys (known universe, incl. not yet declared)
	Symbols []string       // ticker universe
	Checks  []IssuedCheck
	Chain   types.ChainID
	GenOpts GenOpts
	Seed    int64
	Wallets []types.Address // light wallets: keys known (KeyOf), not in the genesis, never picked at random (walletDance)
	Tight   uint64          // id of the reserve coin that starts close to its maximum supply (0: none)
}

type MultiAcc struct {
	Addr      types.Address
	Owners    []int // indexes into Keys
	Weights   []uint32
	Threshold uint32
}

type IssuedCheck struct {
	Raw      []byte
	Pass     *ecdsa.PrivateKey
	Issuer   types.Address
	Coin     types.CoinID
	GasCoin  types.CoinID
	Value    *big.Int
	DueBlock uint64
	Nonce    []byte
}

type GenOpts struct {
	Accounts   int
	Candidates int // initial candidates (all validators unless ValidatorsN set)
	ValidatorN int
	ExtraPK    int
	NoUSDTPool bool
	NoFrozen   bool
	Dense      bool // coins 1..1993 dense (filler tokens)
	BigStakes  bool
	Emission   string
	PriceCoin  uint64 // commission table coin (0 = base)
	NoTight    bool   // no reserve coin close to its maximum supply
}

func detKey(seed int64, i int) *ecdsa.PrivateKey {
	var b [16]byte
	binary.BigEndian.PutUint64(b[:8], uint64(seed))
	binary.BigEndian.PutUint64(b[8:], uint64(i)+1)
	h := crypto.Keccak256(b[:])
	k, err := crypto.ToECDSA(h)
	if err != nil {
		panic(err)
	}
	return k
}

func detPub(seed int64, i int) types.Pubkey {
	var b [16]byte
	binary.BigEndian.PutUint64(b[:8], uint64(seed)^0x5a5a5a5a)
	binary.BigEndian.PutUint64(b[8:], uint64(i)+1)
	h := crypto.Keccak256(b[:])
	var p types.Pubkey
	copy(p[:], h)
	return p
}

func NewWorld(seed int64, o GenOpts) *World {
	if o.Accounts == 0 {
		o.Accounts = 10
	}
	if o.Candidates == 0 {
		o.Candidates = 4
	}
	if o.ValidatorN == 0 {
		o.ValidatorN = o.Candidates
	}
	if o.ExtraPK == 0 {
		o.ExtraPK = 3
	}
	w := &World{Rng: rand.New(rand.NewSource(seed)), KeyOf: map[types.Address]*ecdsa.PrivateKey{}, Chain: types.CurrentChainID, GenOpts: o, Seed: seed}
	for i := 0; i < o.Accounts; i++ {
		k := detKey(seed, i)
		a := crypto.PubkeyToAddress(k.PublicKey)
		w.Keys = append(w.Keys, k)
		w.Addrs = append(w.Addrs, a)
		w.KeyOf[a] = k
	}
	for i := 0; i < o.Candidates+o.ExtraPK; i++ {
		w.PubKeys = append(w.PubKeys, detPub(seed, i))
	}
	for i := 0; i < 3; i++ {
		k := detKey(seed, 1000+i)
		a := crypto.PubkeyToAddress(k.PublicKey)
		w.Wallets = append(w.Wallets, a)
		w.KeyOf[a] = k
	}
	w.Symbols = []string{"COINA", "COINB", "COINC", "TOKA", "TOKB", "USDTE", "NEWCOIN", "NEWTOK", "ABC", "LONGTICKER"}
	return w
}

func addrPtr(a types.Address) *types.Address { return &a }

// BuildGenesis produces a well-formed genesis with coins, a BIP/USDT pool, candidates and validators.
func (w *World) BuildGenesis() types.AppState {
	r := w.Rng
	o := w.GenOpts
	st := types.AppState{}
	st.Note = "verif"
	st.TotalSlashed = "0"
	st.MaxGas = 100000
	st.Emission = "1000000000000000000000000"
	if o.Emission != "" {
		st.Emission = o.Emission
	}
	st.PrevReward = types.RewardPrice{Time: 0, AmountBIP: "350", AmountUSDT: "1", Off: false, Reward: "74000000000000000000"}
	st.Version = "v300"
	st.Versions = []types.Version{{Height: 1, Name: "v300"}, {Height: 2, Name: "v310"}, {Height: 3, Name: "v320"}, {Height: 4, Name: "v330"}}
	st.Commission = defaultCommission()
	st.Commission.Coin = o.PriceCoin

	bal := map[types.Address]map[uint64]*big.Int{}
	add := func(a types.Address, c uint64, v *big.Int) {
		if bal[a] == nil {
			bal[a] = map[uint64]*big.Int{}
		}
		if bal[a][c] == nil {
			bal[a][c] = big.NewInt(0)
		}
		bal[a][c].Add(bal[a][c], v)
	}
	for _, a := range w.Addrs {
		add(a, 0, pip(1000000+int64(r.Intn(1000000))))
	}
	// coins: 1 COINA crr50, 2 COINB crr100, 3 COINC crr10, 4 TOKA, 5 TOKB, 1993 USDTE token
	type cdef struct {
		id        uint64
		sym       string
		crr       uint64
		mint, brn bool
	}
	defs := []cdef{{1, "COINA", 50, false, false}, {2, "COINB", 100, false, false}, {3, "COINC", 10, false, false}, {4, "TOKA", 0, true, true}, {5, "TOKB", 0, false, true}, {1993, "USDTE", 0, true, true}}
	volumes := map[uint64]*big.Int{}
	for _, d := range defs {
		// distribute to 4 random accounts
		for k := 0; k < 4; k++ {
			a := w.Addrs[r.Intn(len(w.Addrs))]
			v := pip(10000 + int64(r.Intn(90000)))
			add(a, d.id, v)
		}
	}
	// every account gets some of each coin so txs are mostly valid
	for _, a := range w.Addrs {
		for _, d := range defs {
			if r.Intn(3) != 0 {
				add(a, d.id, pip(1000+int64(r.Intn(5000))))
			}
		}
	}
	// BIP/USDT pool (id 1) with LP token id 6
	pools := []types.Pool{}
	lpCoins := []types.Coin{}
	nextCoin := uint64(6)
	mkPool := func(id uint64, c0, c1 uint64, r0, r1 *big.Int, holder types.Address) {
		liq := new(big.Int).Sqrt(new(big.Int).Mul(r0, r1))
		pools = append(pools, types.Pool{Coin0: c0, Coin1: c1, Reserve0: r0.String(), Reserve1: r1.String(), ID: id})
		cid := nextCoin
		nextCoin++
		lpCoins = append(lpCoins, types.Coin{ID: cid, Name: fmt.Sprintf("Liquidity Pool %d-%d", c0, c1), Symbol: types.StrToCoinSymbol(fmt.Sprintf("LP-%d", id)), Volume: liq.String(), Crr: 0, MaxSupply: "1000000000000000000000000000000000", Mintable: true, Burnable: true})
		add(types.Address{}, cid, big.NewInt(1000))
		add(holder, cid, new(big.Int).Sub(liq, big.NewInt(1000)))
		volumes[c0] = new(big.Int).Add(volOr0(volumes, c0), r0)
		volumes[c1] = new(big.Int).Add(volOr0(volumes, c1), r1)
	}
	if !o.NoUSDTPool {
		mkPool(1, 0, 1993, pip(500000+int64(r.Intn(500000))), pip(5000+int64(r.Intn(20000))), w.Addrs[0])
	}
	mkPool(uint64(len(pools)+1), 0, 1, pip(20000+int64(r.Intn(50000))), pip(20000+int64(r.Intn(50000))), w.Addrs[1])
	mkPool(uint64(len(pools)+1), 1, 4, pip(20000+int64(r.Intn(50000))), pip(20000+int64(r.Intn(50000))), w.Addrs[2])
	mkPool(uint64(len(pools)+1), 0, 4, pip(20000+int64(r.Intn(50000))), pip(20000+int64(r.Intn(50000))), w.Addrs[3])
	st.Pools = pools
	st.NextOrderID = 1

	// candidates
	tie := w.tieGroupAtLimit() // more than 100 candidates: equal total stakes across the pruning boundary (world_ties.go)
	for i := 0; i < o.Candidates; i++ {
		owner := w.Addrs[i%len(w.Addrs)]
		ctrl := w.Addrs[(i+1)%len(w.Addrs)]
		rew := w.Addrs[(i+2)%len(w.Addrs)]
		c := types.Candidate{ID: uint64(i + 1), RewardAddress: rew, OwnerAddress: owner, ControlAddress: ctrl, PubKey: w.PubKeys[i], Commission: uint64(r.Intn(101)), Status: 2}
		if i >= o.ValidatorN && r.Intn(w.offlineOneIn()) == 0 {
			c.Status = 1
		}
		total := big.NewInt(0)
		ns := 1 + r.Intn(4)
		used := map[string]bool{}
		if parts, ok := tie[i]; ok { // member of the equal-stake group at rank 100: base-coin stakes only, exact total
			ns = 0
			for k, v := range parts {
				c.Stakes = append(c.Stakes, types.Stake{Owner: w.Addrs[(i+k)%len(w.Addrs)], Coin: 0, Value: v.String(), BipValue: v.String()})
				volumes[0] = new(big.Int).Add(volOr0(volumes, 0), v)
				total.Add(total, v)
			}
		}
		for k := 0; k < ns; k++ {
			ow := w.Addrs[r.Intn(len(w.Addrs))]
			coin := uint64(0)
			if k > 0 && r.Intn(2) == 0 {
				coin = []uint64{1, 2, 3}[r.Intn(3)]
			}
			key := fmt.Sprintf("%s:%d", ow.String(), coin)
			if used[key] {
				continue
			}
			used[key] = true
			v := pip(2000 + int64(r.Intn(50000)))
			if o.BigStakes {
				v = pip(1000000 + int64(r.Intn(50000000)))
			}
			c.Stakes = append(c.Stakes, types.Stake{Owner: ow, Coin: coin, Value: v.String(), BipValue: v.String()})
			volumes[coin] = new(big.Int).Add(volOr0(volumes, coin), v)
			if coin == 0 {
				total.Add(total, v)
			}
		}
		c.TotalBipStake = total.String()
		st.Candidates = append(st.Candidates, c)
		if i < o.ValidatorN {
			st.Validators = append(st.Validators, types.Validator{TotalBipStake: total.String(), PubKey: w.PubKeys[i], AccumReward: "0", AbsentTimes: types.NewBitArray(24)})
		}
	}
	w.tieGroupAtValidatorCut(&st, volumes) // more than 100 candidates: equal total stakes across the validator cut (world_ties.go)
	// frozen funds (unbonds, moves, locks) and waitlist entries that mature early in the history
	if !o.NoFrozen {
		nf := 3 + r.Intn(8)
		for k := 0; k < nf; k++ {
			ci := r.Intn(len(st.Candidates))
			cand := st.Candidates[ci]
			ow := w.Addrs[r.Intn(len(w.Addrs))]
			coin := uint64(0)
			if r.Intn(3) == 0 {
				coin = []uint64{1, 2, 3}[r.Intn(3)]
			}
			v := new(big.Int).Add(pip(50+int64(r.Intn(3000))), big.NewInt(int64(r.Intn(100))))
			pk := cand.PubKey
			ff := types.FrozenFund{Height: uint64(InitialHeight + 1 + r.Intn(34)), Address: ow, CandidateKey: &pk, CandidateID: cand.ID, Coin: coin, Value: v.String()}
			switch r.Intn(5) {
			case 0: // a stake move in flight
				to := st.Candidates[(ci+1)%len(st.Candidates)]
				if to.ID != cand.ID {
					ff.MoveToCandidateID = to.ID
				}
			case 1: // a Lock (no candidate)
				ff.CandidateKey = nil
				ff.CandidateID = 0
				if r.Intn(2) == 0 {
					ff.Coin = 4
					coin = 4
				}
			}
			st.FrozenFunds = append(st.FrozenFunds, ff)
			volumes[coin] = new(big.Int).Add(volOr0(volumes, coin), v)
		}
		if o.Candidates > 100 {
			// more than 100 candidates: the weakest ones are removed at the first stake recalculation (height % period == 0).
			// Stake moves in flight towards them mature after that: BeginBlock must unbond them (fix for F9).
			idx := make([]int, 0, len(st.Candidates))
			for i := o.ValidatorN; i < len(st.Candidates); i++ {
				idx = append(idx, i)
			}
			sort.SliceStable(idx, func(a, b int) bool {
				return bi(st.Candidates[idx[a]].TotalBipStake).Cmp(bi(st.Candidates[idx[b]].TotalBipStake)) < 0
			})
			src := st.Candidates[0]
			for k := 0; k < 8 && k < len(idx); k++ {
				to := st.Candidates[idx[k]]
				coin := uint64(0)
				if k%3 == 2 {
					coin = 1
				}
				v := new(big.Int).Add(pip(50+int64(r.Intn(3000))), big.NewInt(int64(r.Intn(100))))
				pk := src.PubKey
				st.FrozenFunds = append(st.FrozenFunds, types.FrozenFund{Height: uint64(InitialHeight + 10 + r.Intn(24)), Address: w.Addrs[r.Intn(len(w.Addrs))],
					CandidateKey: &pk, CandidateID: src.ID, Coin: coin, Value: v.String(), MoveToCandidateID: to.ID})
				volumes[coin] = new(big.Int).Add(volOr0(volumes, coin), v)
			}
		}
		for i := range st.FrozenFunds { // export order: by height
			for j := i + 1; j < len(st.FrozenFunds); j++ {
				if st.FrozenFunds[j].Height < st.FrozenFunds[i].Height {
					st.FrozenFunds[i], st.FrozenFunds[j] = st.FrozenFunds[j], st.FrozenFunds[i]
				}
			}
		}
		nw := r.Intn(4)
		seenW := map[string]bool{}
		for k := 0; k < nw; k++ {
			cand := st.Candidates[r.Intn(len(st.Candidates))]
			ow := w.Addrs[r.Intn(len(w.Addrs))]
			coin := uint64(0)
			if r.Intn(3) == 0 {
				coin = 1
			}
			key := fmt.Sprintf("%d:%s:%d", cand.ID, ow.String(), coin)
			if seenW[key] {
				continue
			}
			seenW[key] = true
			v := pip(10 + int64(r.Intn(900)))
			st.Waitlist = append(st.Waitlist, types.Waitlist{CandidateID: cand.ID, Owner: ow, Coin: coin, Value: v.String()})
			volumes[coin] = new(big.Int).Add(volOr0(volumes, coin), v)
		}
	}
	// a cheap reserve coin close to its maximum supply: CRR 100, price well below 1 BIP, room for a few hundred coins.
	// Drawn from a stream of its own so that the rest of the genesis does not depend on it.
	type tightDef struct {
		id               uint64
		reserve, maxRoom *big.Int
	}
	var tight *tightDef
	if !o.NoTight {
		r2 := rand.New(rand.NewSource(w.Seed ^ 0x7163))
		tight = &tightDef{id: nextCoin, reserve: pip(10000 + int64(r2.Intn(5000)))}
		nextCoin++
		add(w.Addrs[r2.Intn(len(w.Addrs))], tight.id, pip(900000+int64(r2.Intn(200000))))
		for _, a := range w.Addrs {
			if r2.Intn(3) != 0 {
				add(a, tight.id, pip(1000+int64(r2.Intn(5000))))
			}
		}
		tight.maxRoom = new(big.Int).Add(pip(50+int64(r2.Intn(3000))), big.NewInt(int64(r2.Intn(1000))))
		w.Tight = tight.id
	}
	// multisig account
	{
		ms := MultiAcc{Owners: []int{0, 1, 2}, Weights: []uint32{1, 2, 3}, Threshold: 3}
		var h [20]byte
		copy(h[:], crypto.Keccak256([]byte("verif-multisig"))[:20])
		ms.Addr = types.Address(h)
		w.Multis = append(w.Multis, ms)
		add(ms.Addr, 0, pip(500000))
		add(ms.Addr, 1, pip(5000))
	}
	// accounts
	seen := map[types.Address]bool{}
	order := append([]types.Address{}, w.Addrs...)
	order = append(order, types.Address{})
	for _, m := range w.Multis {
		order = append(order, m.Addr)
	}
	for _, a := range order {
		if seen[a] {
			continue
		}
		seen[a] = true
		acc := types.Account{Address: a, Nonce: 0}
		for _, m := range w.Multis {
			if m.Addr == a {
				md := &types.Multisig{Threshold: uint64(m.Threshold)}
				for i, oi := range m.Owners {
					md.Weights = append(md.Weights, uint64(m.Weights[i]))
					md.Addresses = append(md.Addresses, w.Addrs[oi])
				}
				acc.MultisigData = md
			}
		}
		for c := uint64(0); c < 2000; c++ {
			if v, ok := bal[a][c]; ok && v.Sign() > 0 {
				acc.Balance = append(acc.Balance, types.Balance{Coin: c, Value: v.String()})
				if c != 0 {
					volumes[c] = new(big.Int).Add(volOr0(volumes, c), v)
				}
			}
		}
		if len(acc.Balance) == 0 && acc.MultisigData == nil {
			continue
		}
		st.Accounts = append(st.Accounts, acc)
	}
	for _, d := range defs {
		vol := volOr0(volumes, d.id)
		c := types.Coin{ID: d.id, Name: d.sym + " coin", Symbol: types.StrToCoinSymbol(d.sym), Volume: vol.String(), Crr: d.crr, MaxSupply: "1000000000000000000000000000000000", OwnerAddress: addrPtr(w.Addrs[int(d.id)%len(w.Addrs)]), Mintable: d.mint, Burnable: d.brn}
		if d.crr != 0 {
			c.Reserve = pip(100000 + int64(r.Intn(900000))).String()
		}
		st.Coins = append(st.Coins, c)
	}
	// LP coins volumes are fixed already (only balances)
	st.Coins = append(st.Coins, lpCoins...)
	if tight != nil {
		vol := volOr0(volumes, tight.id)
		st.Coins = append(st.Coins, types.Coin{ID: tight.id, Name: "cheap coin", Symbol: types.StrToCoinSymbol("CHEAPCOIN"), Volume: vol.String(), Crr: 100,
			Reserve: tight.reserve.String(), MaxSupply: new(big.Int).Add(vol, tight.maxRoom).String(), OwnerAddress: addrPtr(w.Addrs[int(tight.id)%len(w.Addrs)])})
	}
	// sort coins by id
	for i := range st.Coins {
		for j := i + 1; j < len(st.Coins); j++ {
			if st.Coins[j].ID < st.Coins[i].ID {
				st.Coins[i], st.Coins[j] = st.Coins[j], st.Coins[i]
			}
		}
	}
	return st
}

func volOr0(m map[uint64]*big.Int, c uint64) *big.Int {
	if v, ok := m[c]; ok {
		return v
	}
	return big.NewInt(0)
}

func defaultCommission() types.Commission {
	p := func(s string) string { return helpers.BipToPip(helpers.StringToBigInt(s)).String() }
	_ = p
	return types.Commission{
		Coin: 0, PayloadByte: "2000000000000000", Send: "10000000000000000", BuyBancor: "100000000000000000",
		SellBancor: "100000000000000000", SellAllBancor: "100000000000000000", BuyPoolBase: "100000000000000000",
		BuyPoolDelta: "50000000000000000", SellPoolBase: "100000000000000000", SellPoolDelta: "50000000000000000",
		SellAllPoolBase: "100000000000000000", SellAllPoolDelta: "50000000000000000",
		CreateTicker3: "1000000000000000000000", CreateTicker4: "100000000000000000000", CreateTicker5: "10000000000000000000",
		CreateTicker6: "1000000000000000000", CreateTicker7_10: "100000000000000000",
		CreateCoin: "0", CreateToken: "0", RecreateCoin: "10000000000000000000", RecreateToken: "10000000000000000000",
		DeclareCandidacy: "10000000000000000000", Delegate: "200000000000000000", Unbond: "200000000000000000",
		RedeemCheck: "30000000000000000", SetCandidateOn: "100000000000000000", SetCandidateOff: "100000000000000000",
		CreateMultisig: "100000000000000000", MultisendBase: "10000000000000000", MultisendDelta: "5000000000000000",
		EditCandidate: "10000000000000000000", SetHaltBlock: "1000000000000000000", EditTickerOwner: "10000000000000000000",
		EditMultisig: "1000000000000000000", EditCandidatePublicKey: "10000000000000000000", CreateSwapPool: "1000000000000000000",
		AddLiquidity: "100000000000000000", RemoveLiquidity: "100000000000000000", EditCandidateCommission: "10000000000000000000",
		MintToken: "100000000000000000", BurnToken: "100000000000000000", VoteCommission: "1000000000000000000",
		VoteUpdate: "1000000000000000000", FailedTx: "10000000000000000", AddLimitOrder: "100000000000000000",
		RemoveLimitOrder: "100000000000000000", MoveStake: "100000000000000000", LockStake: "100000000000000000", Lock: "100000000000000000",
	}
}
