package main

// Mode "rlp" (property C23): differential test of the RLP codec, the transaction / check decoders and the signature value
// checks against the Lean model (lean/MinterModel/Rlp.lean, evaluated by the driver through `Q` lines), plus Go-side
// round-trip assertions (decode -> re-encode gives the original bytes, recovered sender = signing key) and the
// multisig signature-list malleability experiment.

import (
	"bytes"
	"crypto/sha256"
	"encoding/hex"
	"encoding/json"
	"fmt"
	"math/big"
	"math/rand"
	"os"
	"path/filepath"
	"sort"
	"strings"

	"github.com/MinterTeam/minter-go-node/coreV2/check"
	tx "github.com/MinterTeam/minter-go-node/coreV2/transaction"
	"github.com/MinterTeam/minter-go-node/coreV2/types"
	"github.com/MinterTeam/minter-go-node/rlp"
)

// rItem is a generic RLP value (what rlp.DecodeBytes(b, &interface{}) yields).
type rItem struct {
	list bool
	str  []byte
	kids []*rItem
}

func rStr(b []byte) *rItem       { return &rItem{str: b} }
func rList(k ...*rItem) *rItem   { return &rItem{list: true, kids: k} }
func (it *rItem) iface() interface{} {
	if !it.list {
		return it.str
	}
	l := make([]interface{}, 0, len(it.kids))
	for _, k := range it.kids {
		l = append(l, k.iface())
	}
	return l
}

func fromIface(v interface{}) *rItem {
	switch x := v.(type) {
	case []byte:
		return rStr(x)
	case []interface{}:
		it := &rItem{list: true}
		for _, e := range x {
			it.kids = append(it.kids, fromIface(e))
		}
		return it
	}
	panic(fmt.Sprintf("unexpected decoded type %T", v))
}

func hexOrDash(b []byte) string {
	if len(b) == 0 {
		return "-"
	}
	return hex.EncodeToString(b)
}

func (it *rItem) render(sb *strings.Builder) {
	if !it.list {
		sb.WriteString(hexOrDash(it.str))
		return
	}
	sb.WriteByte('[')
	for i, k := range it.kids {
		if i > 0 {
			sb.WriteByte(',')
		}
		k.render(sb)
	}
	sb.WriteByte(']')
}

func (it *rItem) String() string {
	var sb strings.Builder
	it.render(&sb)
	return sb.String()
}

func (it *rItem) clone() *rItem {
	c := &rItem{list: it.list, str: append([]byte(nil), it.str...)}
	for _, k := range it.kids {
		c.kids = append(c.kids, k.clone())
	}
	return c
}

func (it *rItem) count() int {
	n := 1
	for _, k := range it.kids {
		n += k.count()
	}
	return n
}

// nth returns the n-th node in preorder.
func (it *rItem) nth(n *int) *rItem {
	if *n == 0 {
		return it
	}
	*n--
	for _, k := range it.kids {
		if r := k.nth(n); r != nil {
			return r
		}
	}
	return nil
}

func minBE(n uint64) []byte {
	var b []byte
	for n > 0 {
		b = append([]byte{byte(n)}, b...)
		n >>= 8
	}
	return b
}

// quirks of the sloppy encoder (0 = canonical)
const (
	qNone       = iota
	qLongForm   // long-form header although the payload is < 56 bytes
	qLenZero    // length bytes with a leading zero
	qByteAsStr  // single byte < 0x80 written as 0x81 xx
	qLenPlus    // declared length one too large
	qLenMinus   // declared length one too small
	qHuge       // declared length 2^64-1
	qNumQuirks
)

func sloppyHead(base byte, n int, quirk int) []byte {
	switch quirk {
	case qLongForm:
		if n < 56 {
			return []byte{base + 56, byte(n)}
		}
	case qLenZero:
		lb := append([]byte{0}, minBE(uint64(n))...)
		if len(lb) == 1 {
			lb = append(lb, 0)
		}
		return append([]byte{base + 55 + byte(len(lb))}, lb...)
	case qLenPlus:
		n++
	case qLenMinus:
		if n > 0 {
			n--
		}
	case qHuge:
		return []byte{base + 63, 0xff, 0xff, 0xff, 0xff, 0xff, 0xff, 0xff, 0xff}
	}
	if n < 56 {
		return []byte{base + byte(n)}
	}
	lb := minBE(uint64(n))
	return append([]byte{base + 55 + byte(len(lb))}, lb...)
}

// sloppy encodes the tree; the node with preorder index *target gets the quirk.
func (it *rItem) sloppy(target *int, quirk int) []byte {
	q := qNone
	if *target == 0 {
		q = quirk
	}
	*target--
	if !it.list {
		if len(it.str) == 1 && it.str[0] < 0x80 {
			if q == qByteAsStr {
				return []byte{0x81, it.str[0]}
			}
			if q == qNone || q == qLenMinus || q == qLenPlus {
				return []byte{it.str[0]}
			}
		}
		return append(sloppyHead(0x80, len(it.str), q), it.str...)
	}
	var payload []byte
	for _, k := range it.kids {
		payload = append(payload, k.sloppy(target, quirk)...)
	}
	return append(sloppyHead(0xc0, len(payload), q), payload...)
}

func (it *rItem) canon() []byte {
	t := -1
	return it.sloppy(&t, qNone)
}

var strLens = []int{0, 1, 1, 1, 2, 3, 5, 8, 20, 32, 33, 54, 55, 56, 57, 64, 65, 100, 255, 256, 257, 1000}

func randStr(r *rand.Rand, big bool) []byte {
	n := strLens[r.Intn(len(strLens))]
	if big && r.Intn(8) == 0 {
		n = []int{65535, 65536, 65537, 70000}[r.Intn(4)]
	}
	b := make([]byte, n)
	r.Read(b)
	if n == 1 {
		switch r.Intn(5) {
		case 0:
			b[0] = 0
		case 1:
			b[0] = 0x7f
		case 2:
			b[0] = 0x80
		}
	}
	if n > 0 && r.Intn(10) == 0 {
		b[0] = 0
	}
	return b
}

func randItem(r *rand.Rand, depth int, big bool) *rItem {
	if depth <= 0 || r.Intn(100) < 55 {
		return rStr(randStr(r, big))
	}
	n := r.Intn(5)
	switch r.Intn(12) {
	case 0:
		n = 0
	case 1:
		n = 50 + r.Intn(10) // payload around 55/56 when the children are single bytes
	case 2:
		n = 250 + r.Intn(10)
	}
	it := &rItem{list: true}
	for i := 0; i < n; i++ {
		if n >= 50 {
			it.kids = append(it.kids, rStr([]byte{byte(r.Intn(0x80))}))
		} else {
			it.kids = append(it.kids, randItem(r, depth-1, false))
		}
	}
	return it
}

// mutTree applies one typed-level mutation (the result is still encoded canonically).
func mutTree(r *rand.Rand, root *rItem) (*rItem, string) {
	c := root.clone()
	k := r.Intn(c.count())
	n := c.nth(&k)
	if !n.list {
		switch r.Intn(11) {
		case 0:
			n.str = append([]byte{0}, n.str...)
			return c, "lead0"
		case 1:
			n.str = []byte{0}
			return c, "zero-byte"
		case 2:
			if len(n.str) > 0 {
				n.str = n.str[:len(n.str)-1]
			}
			return c, "shorter"
		case 3:
			n.str = append(n.str, byte(r.Intn(256)))
			return c, "longer"
		case 4:
			n.str = make([]byte, []int{2, 3, 4, 5, 8, 9, 33}[r.Intn(7)])
			r.Read(n.str)
			n.str[0] |= 1
			return c, "resize"
		case 5:
			n.str = nil
			return c, "empty"
		case 6:
			n.list, n.str = true, nil
			return c, "str->emptylist"
		case 7:
			inner := rStr(n.str)
			n.list, n.str, n.kids = true, nil, []*rItem{inner}
			return c, "str->list"
		case 8:
			n.str = []byte{byte(r.Intn(3))}
			return c, "small"
		case 9:
			n.str = []byte{byte(0x80 + r.Intn(0x80))}
			return c, "byte>=80"
		default:
			if len(n.str) > 0 {
				n.str[r.Intn(len(n.str))] ^= 1 << uint(r.Intn(8))
			}
			return c, "flip"
		}
	}
	switch r.Intn(6) {
	case 0:
		if len(n.kids) > 0 {
			i := r.Intn(len(n.kids))
			n.kids = append(n.kids[:i:i], n.kids[i+1:]...)
		}
		return c, "drop-field"
	case 1:
		if len(n.kids) > 0 {
			i := r.Intn(len(n.kids))
			n.kids = append(n.kids, n.kids[i].clone())
		}
		return c, "dup-field"
	case 2:
		n.kids = append(n.kids, rStr(nil))
		return c, "extra-empty"
	case 3:
		n.kids = append(n.kids, rList())
		return c, "extra-list"
	case 4:
		n.list, n.kids, n.str = false, nil, []byte{1}
		return c, "list->str"
	default:
		if len(n.kids) > 1 {
			i, j := r.Intn(len(n.kids)), r.Intn(len(n.kids))
			n.kids[i], n.kids[j] = n.kids[j], n.kids[i]
		}
		return c, "swap-fields"
	}
}

// byteMut: byte-level corruption of an encoding.
func byteMut(r *rand.Rand, b []byte) ([]byte, string) {
	c := append([]byte(nil), b...)
	switch r.Intn(7) {
	case 0:
		if len(c) > 0 {
			c[r.Intn(len(c))] ^= 1 << uint(r.Intn(8))
		}
		return c, "bitflip"
	case 1:
		if len(c) > 0 {
			c = c[:r.Intn(len(c))]
		}
		return c, "truncate"
	case 2:
		t := make([]byte, 1+r.Intn(3))
		r.Read(t)
		return append(c, t...), "trailing"
	case 3:
		if len(c) > 0 {
			c[0] ^= 1 << uint(r.Intn(8)) // header byte
		}
		return c, "headflip"
	case 4:
		if len(c) > 0 {
			i := r.Intn(len(c))
			c = append(c[:i:i], c[i+1:]...)
		}
		return c, "delbyte"
	case 5:
		i := r.Intn(len(c) + 1)
		c = append(c[:i:i], append([]byte{byte(r.Intn(256))}, c[i:]...)...)
		return c, "insbyte"
	default:
		if len(c) > 0 {
			c[r.Intn(len(c))] = []byte{0x00, 0x7f, 0x80, 0x81, 0xb7, 0xb8, 0xb9, 0xbf, 0xc0, 0xc1, 0xf7, 0xf8, 0xf9, 0xff}[r.Intn(14)]
		}
		return c, "tagbyte"
	}
}

func goDecodeGeneric(b []byte) string {
	var v interface{}
	if err := rlp.DecodeBytes(b, &v); err != nil {
		return "err"
	}
	return fromIface(v).String()
}

func txFieldsString(t *tx.Transaction) string {
	return fmt.Sprintf("%d,%d,%d,%d,%d,%s,%s,%s,%d,%s", t.Nonce, t.ChainID, t.GasPrice, t.GasCoin, t.Type,
		hexOrDash(t.Data), hexOrDash(t.Payload), hexOrDash(t.ServiceData), t.SignatureType, hexOrDash(t.SignatureData))
}

func goTxDec(b []byte) string {
	var t tx.Transaction
	if err := rlp.DecodeBytes(b, &t); err != nil {
		return "err"
	}
	return txFieldsString(&t)
}

func okErr(err error) string {
	if err != nil {
		return "err"
	}
	return "ok"
}

// sigValueCheck runs the real RecoverPlain; ErrInvalidSig is the only error of the value checks
// (BitLen, v-27 in {0,1}, ValidateSignatureValues), later errors come from the curve code.
func sigValueCheck(v, r, s *big.Int) string {
	var h types.Hash
	h[31] = 1
	_, err := tx.RecoverPlain(h, r, s, v)
	return fmt.Sprint(err != tx.ErrInvalidSig)
}

var secpN, _ = new(big.Int).SetString("fffffffffffffffffffffffffffffffebaaedce6af48a03bbfd25e8cd0364141", 16)

func RlpMode(seed int64, n int, driver, keep string) ModeResult {
	res := ModeResult{Notes: map[string]interface{}{}}
	r := rand.New(rand.NewSource(seed))
	tracePath := fmt.Sprintf("%s/rlp-%d.trace", keep, seed)
	os.MkdirAll(keep, 0o755)
	sink, err := NewSink(tracePath, driver)
	if err != nil {
		res.Crash = err.Error()
		return res
	}
	counts := map[string]int{}
	goFails := []string{}
	distinct := map[string]bool{}
	emit := func(stream, fn string, args []string, out string) {
		line := "Q " + fn + " " + strings.Join(args, " ") + " = " + out
		sink.Op(line)
		res.Evaluations++
		cls := out
		if out != "err" && out != "ok" && out != "true" && out != "false" {
			cls = "value"
		}
		counts[stream+"/"+fn+"="+cls]++
		if len(line) < 400 {
			distinct[line] = true
		} else {
			distinct[fmt.Sprintf("%x", sha256.Sum256([]byte(line)))] = true
		}
		if len(res.Samples) < 8 && len(line) < 300 && r.Intn(400) == 0 {
			res.Samples = append(res.Samples, line)
		}
	}
	goFail := func(kind, msg string) {
		counts["gofail/"+kind]++
		if len(goFails) < 20 {
			goFails = append(goFails, kind+": "+msg)
		}
	}
	hx := hex.EncodeToString

	// ---------- stream 1+2: generic items, canonical and corrupted ----------
	genericOne := func(it *rItem, stream string) []byte {
		enc, err := rlp.EncodeToBytes(it.iface())
		if err != nil {
			goFail("encode", err.Error())
			return nil
		}
		if !bytes.Equal(enc, it.canon()) {
			goFail("harness-encoder", "sloppy encoder without quirk differs from rlp.EncodeToBytes: "+it.String())
		}
		emit(stream, "rlpenc", []string{it.String()}, hx(enc))
		dec := goDecodeGeneric(enc)
		if dec != it.String() {
			goFail("roundtrip", "decode(encode(x)) != x for "+it.String())
		}
		emit(stream, "rlpdec", []string{hx(enc)}, dec)
		return enc
	}
	corrupt := func(it *rItem, enc []byte, stream string) {
		// (a) non-canonical encodings of the same item
		for k := 0; k < 2; k++ {
			t := r.Intn(it.count())
			q := 1 + r.Intn(qNumQuirks-1)
			b := it.sloppy(&t, q)
			if bytes.Equal(b, enc) {
				continue
			}
			out := goDecodeGeneric(b)
			if out != "err" && out == it.String() {
				goFail("second-encoding", fmt.Sprintf("item %s has two accepted encodings %x and %x", it.String(), enc, b))
			}
			emit(stream+"-quirk", "rlpdec", []string{hx(b)}, out)
		}
		// (b) byte-level corruption
		b, _ := byteMut(r, enc)
		if len(b) > 0 {
			out := goDecodeGeneric(b)
			if out != "err" && !bytes.Equal(b, enc) {
				// accepted: must be the canonical encoding of what it decodes to
				var v interface{}
				rlp.DecodeBytes(b, &v)
				re, _ := rlp.EncodeToBytes(v)
				if !bytes.Equal(re, b) {
					goFail("reencode", fmt.Sprintf("accepted %x re-encodes to %x", b, re))
				}
			}
			emit(stream+"-bytes", "rlpdec", []string{hx(b)}, out)
		}
	}
	for i := 0; i < n; i++ {
		it := randItem(r, 5, i%50 == 0)
		enc := genericOne(it, "generic")
		if enc != nil && len(enc) < 5000 {
			corrupt(it, enc, "generic")
		}
	}
	// fixed boundary shapes
	{
		var fixed []*rItem
		for _, l := range []int{0, 1, 54, 55, 56, 57, 255, 256, 257, 65535, 65536} {
			b := bytes.Repeat([]byte{0xab}, l)
			fixed = append(fixed, rStr(b), rList(rStr(b)), rList(rStr(b), rStr(b)))
		}
		for _, b := range []byte{0, 1, 0x7f, 0x80, 0x81, 0xff} {
			fixed = append(fixed, rStr([]byte{b}), rList(rStr([]byte{b})))
		}
		fixed = append(fixed, rList(), rList(rList()), rList(rList(), rList()), rList(rList(rList()), rStr(nil)))
		for _, d := range []int{10, 100, 1000, 3000, 6000} {
			it := rList()
			for j := 0; j < d; j++ {
				it = rList(it)
			}
			fixed = append(fixed, it)
		}
		for _, it := range fixed {
			enc := genericOne(it, "boundary")
			if enc != nil && it.count() < 200 && len(enc) < 2000 {
				for q := 1; q < qNumQuirks; q++ {
					for t0 := 0; t0 < it.count() && t0 < 3; t0++ {
						t := t0
						b := it.sloppy(&t, q)
						if !bytes.Equal(b, enc) {
							emit("boundary-quirk", "rlpdec", []string{hx(b)}, goDecodeGeneric(b))
						}
					}
				}
			}
		}
		// hand-written classics
		for _, h := range []string{"", "00", "7f", "80", "8100", "8105", "817f", "8180", "81ff", "b800", "b801aa", "b837" + strings.Repeat("aa", 55), "b838" + strings.Repeat("aa", 56),
			"b90038" + strings.Repeat("aa", 56), "b9010000", "ba000100" + strings.Repeat("00", 256), "bfffffffffffffffff", "bf0000000000000038" + strings.Repeat("aa", 56),
			"c0", "c100", "c180", "c28105", "c1c0", "c2c0", "c1", "c3c0", "f800", "f801c0", "f838" + strings.Repeat("80", 56), "f837" + strings.Repeat("80", 55), "f90038" + strings.Repeat("80", 56),
			"ffffffffffffffffff", "f8", "b8", "b9", "b901", "c080", "8080", "c0c0", "c3808080", "c4808080", "c2808080", "c382808080", "c2c180", "c3c28080", "c2c28080"} {
			b, _ := hex.DecodeString(h)
			emit("classic", "rlpdec", []string{hexOrDash(b)}, goDecodeGeneric(b))
		}
	}
	// pure random bytes
	for i := 0; i < n/2; i++ {
		b := make([]byte, 1+r.Intn(12))
		r.Read(b)
		if r.Intn(2) == 0 {
			b[0] = []byte{0x80, 0x81, 0x82, 0xb7, 0xb8, 0xb9, 0xc0, 0xc1, 0xc2, 0xc5, 0xf7, 0xf8, 0xf9}[r.Intn(13)]
		}
		emit("random", "rlpdec", []string{hx(b)}, goDecodeGeneric(b))
	}

	// ---------- stream 3: integers ----------
	{
		var vals []*big.Int
		for _, k := range []uint{0, 1, 7, 8, 15, 16, 24, 31, 32, 33, 56, 63, 64, 65, 128, 255, 256, 257} {
			p := new(big.Int).Lsh(big.NewInt(1), k)
			vals = append(vals, new(big.Int).Sub(p, big.NewInt(1)), p, new(big.Int).Add(p, big.NewInt(1)))
		}
		vals = append(vals, big.NewInt(0), big.NewInt(127), big.NewInt(128), big.NewInt(55), big.NewInt(56))
		for i := 0; i < n/10+20; i++ {
			vals = append(vals, randBig(r, 30))
		}
		for _, v := range vals {
			var enc []byte
			if v.IsUint64() {
				enc, _ = rlp.EncodeToBytes(v.Uint64())
				viaBig, _ := rlp.EncodeToBytes(v)
				if !bytes.Equal(enc, viaBig) {
					goFail("uint-vs-big", v.String())
				}
			} else {
				enc, _ = rlp.EncodeToBytes(v)
			}
			emit("ints", "uintenc", []string{v.String()}, hx(enc))
			raw := v.Bytes()
			variants := [][]byte{enc,
				append([]byte{0x80 + byte(len(raw)+1), 0}, raw...),    // leading zero
				append([]byte{0x80 + byte(len(raw))}, raw...),          // explicit string header (non-canonical when a single byte < 0x80)
				append([]byte{0xb8, byte(len(raw))}, raw...),           // long form
				append(append([]byte{}, enc...), 0),                    // trailing byte
				append([]byte{0xc0 + byte(len(enc))}, enc...),          // wrapped in a list
				{0x00}, {0x80}, {0x81, 0x00},
			}
			for _, b := range variants {
				if len(raw)+1 >= 56 {
					continue
				}
				var bi big.Int
				out := "err"
				if err := rlp.DecodeBytes(b, &bi); err == nil {
					out = bi.String()
				}
				emit("ints", "beint", []string{hx(b)}, out)
				bits := []int{8, 16, 32, 64}[r.Intn(4)]
				out = "err"
				switch bits {
				case 8:
					var u uint8
					if rlp.DecodeBytes(b, &u) == nil {
						out = fmt.Sprint(u)
					}
				case 16:
					var u uint16
					if rlp.DecodeBytes(b, &u) == nil {
						out = fmt.Sprint(u)
					}
				case 32:
					var u uint32
					if rlp.DecodeBytes(b, &u) == nil {
						out = fmt.Sprint(u)
					}
				case 64:
					var u uint64
					if rlp.DecodeBytes(b, &u) == nil {
						out = fmt.Sprint(u)
					}
				}
				emit("ints", "uintdec", []string{fmt.Sprint(bits), hx(b)}, out)
			}
		}
	}

	// ---------- stream 4-6: transactions, signatures, checks (real generator, real executor decoder) ----------
	dummy, _ := NewSink("", "")
	hist, err := NewHist(Profile("mixed", seed, "quick"), dummy)
	if err != nil {
		res.Crash = "hist: " + err.Error()
		return res
	}
	g := hist.G
	g.MultisigPct = 15
	ex := tx.NewExecutorV3(tx.GetDataV3)
	height := hist.N.Height + 1
	typesSeen := map[string]int{}
	ntx := n / 3
	if ntx < len(allTypes)*2 {
		ntx = len(allTypes) * 2
	}
	txfull := func(stream string, raw []byte) (*tx.Transaction, bool) {
		if len(raw) == 0 {
			return nil, false
		}
		t, err := ex.DecodeFromBytes(raw)
		emit(stream, "txfull", []string{hx(raw)}, okErr(err))
		if err != nil {
			return nil, false
		}
		// accepted: decoding and re-encoding must give back the original bytes, at every level
		if re, _ := t.Serialize(); !bytes.Equal(re, raw) {
			goFail("tx-reencode", fmt.Sprintf("accepted %x re-serializes to %x", raw, re))
		}
		if re, _ := rlp.EncodeToBytes(t.GetDecodedData()); !bytes.Equal(re, t.Data) {
			goFail("data-reencode", fmt.Sprintf("type %d data %x re-encodes to %x", t.Type, []byte(t.Data), re))
		}
		switch t.SignatureType {
		case tx.SigTypeSingle:
			var s tx.Signature
			rlp.DecodeBytes(t.SignatureData, &s)
			if re, _ := rlp.EncodeToBytes(s); !bytes.Equal(re, t.SignatureData) {
				goFail("sig-reencode", fmt.Sprintf("%x -> %x", t.SignatureData, re))
			}
		case tx.SigTypeMulti:
			var s tx.SignatureMulti
			rlp.DecodeBytes(t.SignatureData, &s)
			if re, _ := rlp.EncodeToBytes(s); !bytes.Equal(re, t.SignatureData) {
				goFail("msig-reencode", fmt.Sprintf("%x -> %x", t.SignatureData, re))
			}
		}
		return t, true
	}
	for i := 0; i < ntx; i++ {
		var gt *GenTx
		func() {
			defer func() {
				if rec := recover(); rec != nil {
					gt = nil
				}
			}()
			if i < len(allTypes)*2 {
				gt = g.OfType(allTypes[i%len(allTypes)], height)
			} else {
				gt = g.OfType(g.pickType(), height)
			}
		}()
		if gt == nil || len(gt.Raw) == 0 {
			counts["tx/generator-panic"]++
			continue
		}
		raw := gt.Raw
		typesSeen[fmt.Sprintf("%02x", byte(gt.Type))]++
		emit("tx", "txdec", []string{hx(raw)}, goTxDec(raw))
		t, ok := txfull("tx", raw)
		if !ok {
			goFail("generated-tx-rejected", hx(raw))
			continue
		}
		emit("tx", "txenc", []string{txFieldsString(t)}, hx(raw))
		// the generic tree of the transaction
		var v interface{}
		if err := rlp.DecodeBytes(raw, &v); err != nil {
			goFail("generic-decode-of-tx", hx(raw))
			continue
		}
		tree := fromIface(v)
		for k := 0; k < 3; k++ {
			// outer typed mutation
			m, _ := mutTree(r, tree)
			b := m.canon()
			emit("tx-outer-mut", "txdec", []string{hx(b)}, goTxDec(b))
			txfull("tx-outer-mut", b)
		}
		// mutation inside Data / SignatureData
		for _, fi := range []int{5, 9} {
			var iv interface{}
			if err := rlp.DecodeBytes(tree.kids[fi].str, &iv); err != nil {
				continue
			}
			inner := fromIface(iv)
			for k := 0; k < 2; k++ {
				m, _ := mutTree(r, inner)
				c := tree.clone()
				c.kids[fi].str = m.canon()
				txfull(fmt.Sprintf("tx-inner-mut-%d", fi), c.canon())
			}
			// non-canonical encoding inside the embedded byte string
			t0 := r.Intn(inner.count())
			c := tree.clone()
			c.kids[fi].str = inner.sloppy(&t0, 1+r.Intn(qNumQuirks-1))
			if !bytes.Equal(c.kids[fi].str, tree.kids[fi].str) {
				txfull(fmt.Sprintf("tx-inner-quirk-%d", fi), c.canon())
			}
		}
		// non-canonical outer encoding
		{
			t0 := r.Intn(tree.count())
			b := tree.sloppy(&t0, 1+r.Intn(qNumQuirks-1))
			if !bytes.Equal(b, raw) {
				emit("tx-outer-quirk", "txdec", []string{hx(b)}, goTxDec(b))
				// a quirk (e.g. a length prefix one too short) can shift the parse so that the bytes are the CANONICAL encoding of
				// a different transaction; only an accepted byte string that decodes to the same content is a second encoding
				if _, ok := txfull("tx-outer-quirk", b); ok && goTxDec(b) == goTxDec(raw) {
					goFail("second-encoding", fmt.Sprintf("tx %x also accepted as %x", raw, b))
				}
			}
			b, _ = byteMut(r, raw)
			if len(b) > 0 {
				emit("tx-bytes", "txdec", []string{hx(b)}, goTxDec(b))
				txfull("tx-bytes", b)
			}
		}
		// signatures
		if t.SignatureType == tx.SigTypeSingle {
			var s tx.Signature
			rlp.DecodeBytes(t.SignatureData, &s)
			emit("sig", "sigdec", []string{hx(t.SignatureData)}, fmt.Sprintf("%s,%s,%s", s.V, s.R, s.S))
			sender, err := t.Sender()
			if err != nil {
				goFail("sender", err.Error())
			} else if len(gt.Signers) == 1 && sender != gt.Signers[0] {
				goFail("sender-not-signer", fmt.Sprintf("%x: recovered %s, signed by %s", raw, sender.String(), gt.Signers[0].String()))
			} else {
				counts["sig/recovered-sender-is-signer"]++
			}
			emit("sig", "sigok", []string{s.V.String(), s.R.String(), s.S.String()}, sigValueCheck(s.V, s.R, s.S))
			rebuild := func(v, rr, ss *big.Int) (*tx.Transaction, []byte) {
				sd, _ := rlp.EncodeToBytes(tx.Signature{V: v, R: rr, S: ss})
				t2 := tx.Transaction{Nonce: t.Nonce, ChainID: t.ChainID, GasPrice: t.GasPrice, GasCoin: t.GasCoin, Type: t.Type, Data: t.Data,
					Payload: t.Payload, ServiceData: t.ServiceData, SignatureType: t.SignatureType, SignatureData: sd}
				raw2, _ := rlp.EncodeToBytes(t2)
				d, err := ex.DecodeFromBytes(raw2)
				if err != nil {
					return nil, raw2
				}
				return d, raw2
			}
			// the classic malleation: (v xor 1, r, N - s)
			vFlip := big.NewInt(55 - s.V.Int64())
			sNeg := new(big.Int).Sub(secpN, s.S)
			if d, raw2 := rebuild(vFlip, s.R, sNeg); d != nil {
				_, err := d.Sender()
				if err != tx.ErrInvalidSig {
					goFail("malleated-accepted", fmt.Sprintf("%x: Sender() err=%v", raw2, err))
				} else {
					counts["sig/malleated-highS-rejected"]++
				}
				emit("sig", "sigok", []string{vFlip.String(), s.R.String(), sNeg.String()}, sigValueCheck(vFlip, s.R, sNeg))
			}
			// only v flipped: value check passes, another key is recovered
			if d, _ := rebuild(vFlip, s.R, s.S); d != nil {
				a, err := d.Sender()
				if err == nil && a == sender {
					goFail("vflip-same-sender", hx(raw))
				} else if err == nil {
					counts["sig/vflip-other-sender"]++
				} else {
					counts["sig/vflip-error"]++
				}
			}
			for _, bad := range []int64{0, 1, 26, 29, 255, 256 + 27, 256 + 28} {
				bv := big.NewInt(bad)
				if i%4 == 0 {
					if d, raw2 := rebuild(bv, s.R, s.S); d != nil {
						if _, err := d.Sender(); err != tx.ErrInvalidSig {
							goFail("bad-v-accepted", fmt.Sprintf("%x: v=%d err=%v", raw2, bad, err))
						} else {
							counts["sig/bad-v-rejected"]++
						}
					}
				}
				emit("sig", "sigok", []string{bv.String(), s.R.String(), s.S.String()}, sigValueCheck(bv, s.R, s.S))
			}
		} else {
			var s tx.SignatureMulti
			rlp.DecodeBytes(t.SignatureData, &s)
			parts := []string{hx(s.Multisig[:])}
			for _, sg := range s.Signatures {
				parts = append(parts, fmt.Sprintf("%s,%s,%s", sg.V, sg.R, sg.S))
			}
			emit("sig", "msigdec", []string{hx(t.SignatureData)}, strings.Join(parts, ";"))
		}
	}
	// boundary signature values
	{
		half := new(big.Int).Div(secpN, big.NewInt(2))
		two256 := new(big.Int).Lsh(big.NewInt(1), 256)
		edge := []*big.Int{big.NewInt(0), big.NewInt(1), big.NewInt(2), new(big.Int).Sub(half, big.NewInt(1)), half, new(big.Int).Add(half, big.NewInt(1)),
			new(big.Int).Sub(secpN, big.NewInt(1)), secpN, new(big.Int).Add(secpN, big.NewInt(1)), new(big.Int).Sub(two256, big.NewInt(1)), two256}
		vs := []*big.Int{big.NewInt(0), big.NewInt(1), big.NewInt(26), big.NewInt(27), big.NewInt(28), big.NewInt(29), big.NewInt(255), big.NewInt(256), big.NewInt(283), big.NewInt(284),
			new(big.Int).Add(new(big.Int).Lsh(big.NewInt(1), 64), big.NewInt(27))}
		for _, v := range vs {
			for _, rr := range edge {
				for _, ss := range edge {
					emit("sig-edge", "sigok", []string{v.String(), rr.String(), ss.String()}, sigValueCheck(v, rr, ss))
				}
			}
		}
		for i := 0; i < n/4; i++ {
			v := vs[r.Intn(len(vs))]
			rr := new(big.Int).Rand(r, two256)
			ss := new(big.Int).Rand(r, two256)
			if r.Intn(2) == 0 {
				ss = new(big.Int).Rand(r, half)
			}
			if r.Intn(4) == 0 {
				rr = edge[r.Intn(len(edge))]
			}
			emit("sig-rand", "sigok", []string{v.String(), rr.String(), ss.String()}, sigValueCheck(v, rr, ss))
		}
	}
	// checks
	for i := 0; i < n/10+10; i++ {
		issuer := g.pickAddr()
		nl := 1 + r.Intn(16)
		ic := g.IssueCheck(issuer, types.CoinID(r.Intn(3)), types.CoinID(r.Intn(2)), randBig(r, 24), height+uint64(r.Intn(100)), g.W.Chain, nl)
		raw := ic.Raw
		c, err := check.DecodeFromBytes(raw)
		emit("check", "chkdec", []string{hx(raw)}, okErr(err))
		if err != nil {
			goFail("check-rejected", hx(raw))
			continue
		}
		if re, _ := rlp.EncodeToBytes(c); !bytes.Equal(re, raw) {
			goFail("check-reencode", fmt.Sprintf("%x -> %x", raw, re))
		}
		if a, err := c.Sender(); err != nil || a != issuer {
			goFail("check-sender", fmt.Sprintf("%x: %v %s vs issuer %s", raw, err, a.String(), issuer.String()))
		} else {
			counts["check/recovered-sender-is-issuer"]++
		}
		emit("check", "sigok", []string{c.V.String(), c.R.String(), c.S.String()}, sigValueCheck(c.V, c.R, c.S))
		// malleated check signature
		mc := *c
		mc.V = big.NewInt(55 - c.V.Int64())
		mc.S = new(big.Int).Sub(secpN, c.S)
		if _, err := mc.Sender(); err != check.ErrInvalidSig {
			goFail("check-malleated-accepted", hx(raw))
		} else {
			counts["check/malleated-highS-rejected"]++
		}
		var v interface{}
		rlp.DecodeBytes(raw, &v)
		tree := fromIface(v)
		for k := 0; k < 3; k++ {
			m, _ := mutTree(r, tree)
			b := m.canon()
			cc, err := check.DecodeFromBytes(b)
			emit("check-mut", "chkdec", []string{hx(b)}, okErr(err))
			if err == nil {
				if re, _ := rlp.EncodeToBytes(cc); !bytes.Equal(re, b) {
					goFail("check-reencode", fmt.Sprintf("%x -> %x", b, re))
				}
			}
		}
		t0 := r.Intn(tree.count())
		b := tree.sloppy(&t0, 1+r.Intn(qNumQuirks-1))
		if !bytes.Equal(b, raw) {
			_, err := check.DecodeFromBytes(b)
			emit("check-quirk", "chkdec", []string{hx(b)}, okErr(err))
		}
		b, _ = byteMut(r, raw)
		if len(b) > 0 {
			_, err := check.DecodeFromBytes(b)
			emit("check-bytes", "chkdec", []string{hx(b)}, okErr(err))
		}
	}
	hist.N.Destroy()

	// ---------- multisig signature-list malleability (suspect S3) ----------
	ms := multisigMalleability(seed)
	res.Notes["multisig_malleability"] = ms

	sink.Close()
	for _, f := range sink.Fails {
		res.viol("C23", f, tracePath)
	}
	for _, f := range goFails {
		res.viol("C23", "go-side: "+f, tracePath)
	}
	if ms != nil {
		if v, _ := ms["violates"].(bool); v {
			// integrator: keep the concrete byte strings as the replay of this finding
			rp := filepath.Join(keep, fmt.Sprintf("rlp-multisig-malleability-%d.json", seed))
			if b, err := json.MarshalIndent(ms, "", " "); err == nil {
				os.MkdirAll(keep, 0o755)
				if os.WriteFile(rp, b, 0o644) != nil {
					rp = ""
				}
			} else {
				rp = ""
			}
			res.viol("C23", fmt.Sprintf("multisig-signature-malleability: %v", ms["summary"]), rp)
		}
	}
	if len(sink.Fails) == 0 && len(goFails) == 0 {
		os.Remove(tracePath)
	}
	res.Distinct = len(distinct)
	keys := make([]string, 0, len(counts))
	for k := range counts {
		keys = append(keys, k)
	}
	sort.Strings(keys)
	ordered := map[string]int{}
	for _, k := range keys {
		ordered[k] = counts[k]
	}
	res.Notes["per_stream"] = ordered
	res.Notes["tx_types"] = typesSeen
	return res
}

// multisigMalleability: the same signed multisig transaction content is delivered, on identical fresh nodes, with the
// signature list in different orders / trimmed / padded with a foreign signature.
func multisigMalleability(seed int64) map[string]interface{} {
	type variant struct {
		name    string
		signers []int
	}
	variants := []variant{{"as-signed[0,1,2]", []int{0, 1, 2}}, {"permuted[2,1,0]", []int{2, 1, 0}}, {"permuted[1,0,2]", []int{1, 0, 2}},
		{"trimmed[2]", []int{2}}, {"trimmed[1,0]", []int{1, 0}}, {"padded-foreign[2,5]", []int{2, 5}}}
	out := map[string]interface{}{}
	var rows []map[string]interface{}
	accepted := 0
	hashes := map[string]bool{}
	raws := map[string]bool{}
	for _, v := range variants {
		row := map[string]interface{}{"variant": v.name}
		func() {
			defer func() {
				if rec := recover(); rec != nil {
					row["panic"] = fmt.Sprint(rec)
				}
			}()
			dummy, _ := NewSink("", "")
			o := Profile("mixed", seed, "quick")
			h, err := NewHist(o, dummy)
			if err != nil {
				row["error"] = err.Error()
				return
			}
			defer h.N.Destroy()
			if len(h.W.Multis) == 0 {
				row["error"] = "no multisig account in genesis"
				return
			}
			m := h.W.Multis[0]
			height := h.N.Height + 1
			if pan := h.N.Begin(height, h.stepTime(height), h.commitVotes(height), nil); pan != "" {
				row["error"] = "begin: " + pan
				return
			}
			data, _ := rlp.EncodeToBytes(tx.SendData{Coin: 0, To: h.W.Addrs[3], Value: pip(7)})
			t0 := tx.Transaction{Nonce: h.G.cs().Accounts().GetNonce(m.Addr) + 1, ChainID: h.W.Chain, GasPrice: 1, GasCoin: 0, Type: tx.TypeSend, Data: data, SignatureType: tx.SigTypeMulti}
			t0.SetMultisigAddress(m.Addr)
			for _, k := range v.signers {
				if err := t0.Sign(h.W.Keys[k]); err != nil {
					row["error"] = err.Error()
					return
				}
			}
			raw, _ := rlp.EncodeToBytes(t0)
			hh := t0.Hash()
			row["signed_hash"] = hex.EncodeToString(hh[:])
			row["raw"] = hex.EncodeToString(raw)
			row["tm_tx_hash"] = fmt.Sprintf("%x", sha256.Sum256(raw))
			resp, pan := h.N.Deliver(raw)
			row["deliver_code"] = resp.Code
			row["log"] = resp.Log
			if pan != "" {
				row["panic"] = pan
				return
			}
			h.N.End(height)
			ah, _ := h.N.Commit()
			row["app_hash"] = hex.EncodeToString(ah)
			if resp.Code == 0 {
				accepted++
				hashes[hex.EncodeToString(ah)] = true
				raws[hex.EncodeToString(raw)] = true
			}
		}()
		rows = append(rows, row)
	}
	out["variants"] = rows
	out["accepted_variants"] = accepted
	out["distinct_accepted_encodings"] = len(raws)
	out["distinct_app_hashes_after_block"] = len(hashes)
	out["violates"] = len(raws) > 1
	out["summary"] = fmt.Sprintf("%d different byte strings carrying the same signed content (same tx.Hash, same multisig sender and nonce) are all accepted by DeliverTx (code 0); app hashes after the block: %d distinct", len(raws), len(hashes))
	return out
}
