package main

// Mode `orders` (properties C13, C14): pool trades with limit orders.
//
// Real code under test: SwapV2.PairSellWithOrders / PairBuyWithOrders (→ PairV2.SellWithOrders / BuyWithOrders →
// calculateBuyForSellWithOrders / calculateSellForBuyWithOrders, CalcDiffPool, updateOrders), PairAddOrder,
// PairRemoveLimitOrder, ExpireOrders, OrdersSell (best-first iteration incl. the dirty/unsorted/deleted caches and the
// on-disk price index), Commit, reload from the tree.
//
// For every trade: (1) direct monitors on the REAL results (C13: product of reserves, pay-out bound; C14: price of every
// fill, priority, credits, dust closure, conservation); (2) a `Q` line so that the Lean model (MinterModel/Orders.lean,
// the definitions the theorems are about) recomputes the whole trade from the abstract book and must agree on every
// number.  The float-sqrt helper `calculateAddAmountsForPrice` is an oracle for the model: its answers are obtained from
// the real function on a stand-alone pair with the same reserves and passed in the Q line as a lookup table.

import (
	"bytes"
	"fmt"
	"io/ioutil"
	"log"
	"math"
	"math/big"
	"math/rand"
	"os"
	"sort"
	"strings"
	"time"

	eventsdb "github.com/MinterTeam/minter-go-node/coreV2/events"
	"github.com/MinterTeam/minter-go-node/coreV2/state/bus"
	"github.com/MinterTeam/minter-go-node/coreV2/state/swap"
	"github.com/MinterTeam/minter-go-node/coreV2/types"
	"github.com/MinterTeam/minter-go-node/tree"
	"github.com/cosmos/iavl"
	db "github.com/tendermint/tm-db"
)

// ---------- bus recorders ----------

type ordCredit struct {
	addr types.Address
	coin types.CoinID
	v    *big.Int
}

type ordRec struct {
	credits []ordCredit
	coins   map[types.CoinID]*big.Int
	events  []eventsdb.Event
}

func (a *ordRec) reset() {
	a.credits = nil
	a.coins = map[types.CoinID]*big.Int{}
	a.events = nil
}
func (a *ordRec) AddBalance(addr types.Address, coin types.CoinID, v *big.Int) {
	a.credits = append(a.credits, ordCredit{addr, coin, new(big.Int).Set(v)})
}
func (a *ordRec) IsX3Mining(types.Address, uint64) bool           { return false }
func (a *ordRec) GetLockStakeUntilBlock(types.Address) uint64     { return 0 }
func (a *ordRec) GetBalance(types.Address, types.CoinID) *big.Int { return big.NewInt(0) }
func (a *ordRec) AddEvent(e eventsdb.Event)                       { a.events = append(a.events, e) }
func (a *ordRec) LoadEvents(uint32) eventsdb.Events               { return nil }
func (a *ordRec) CommitEvents(uint32) error                       { return nil }
func (a *ordRec) Close() error                                    { return nil }
func (a *ordRec) AddCoinVolume(types.CoinID, *big.Int)            {}
func (a *ordRec) AddCoin(coin types.CoinID, v *big.Int, _ ...string) {
	if a.coins[coin] == nil {
		a.coins[coin] = big.NewInt(0)
	}
	a.coins[coin].Add(a.coins[coin], v)
}

// ---------- abstract book kept by the harness (independent of the node's caches) ----------

type gOrder struct {
	id        uint32
	buy, sell *big.Int
	owner     int
	height    uint64
	committed bool
}

type gFill struct {
	id        uint32
	buy, sell *big.Int
}

var hung bool // a call into the pair code did not return: stop the run after reporting

var minVol = big.NewInt(10000000000)
var big0 = big.NewInt(0)
var big1 = big.NewInt(1)

func ownerAddr(i int) types.Address {
	var a types.Address
	a[18] = byte(i >> 8)
	a[19] = byte(i)
	return a
}
func ownerIdx(a types.Address) int { return int(a[18])<<8 | int(a[19]) }

func bookStr(book []*gOrder) string {
	if len(book) == 0 {
		return "-"
	}
	var sb strings.Builder
	for i, o := range book {
		if i > 0 {
			sb.WriteByte(',')
		}
		fmt.Fprintf(&sb, "%d:%s:%s:%d:%d", o.id, o.buy, o.sell, o.owner, o.height)
	}
	return sb.String()
}

// price key of an order as the node sorts it: the pair in canonical orientation (dir 0) sorts by sell/buy descending,
// the reversed pair (dir 1) by buy/sell ascending; both rounded to float64 (nearest even), ties by id ascending.
// Computed with big.Rat.Float64 — an implementation independent of big.Float.Quo used by the node.
func sortKeyF(o *gOrder, dir int) float64 {
	var f float64
	if dir == 0 {
		f, _ = new(big.Rat).SetFrac(o.sell, o.buy).Float64()
	} else {
		f, _ = new(big.Rat).SetFrac(o.buy, o.sell).Float64()
	}
	return f
}

func sortBook(book []*gOrder, dir int) []*gOrder {
	type kv struct {
		k float64
		o *gOrder
	}
	l := make([]kv, len(book))
	for i, o := range book {
		l[i] = kv{sortKeyF(o, dir), o}
	}
	sort.SliceStable(l, func(i, j int) bool {
		if l[i].k != l[j].k {
			if dir == 0 {
				return l[i].k > l[j].k
			}
			return l[i].k < l[j].k
		}
		return l[i].o.id < l[j].o.id
	})
	out := make([]*gOrder, len(book))
	for i := range l {
		out[i] = l[i].o
	}
	return out
}

// ---------- Go mirror of the walk: only used to learn which oracle questions the real trade asks ----------

type oracleEntry struct{ r0, r1, buy, sell, a0 *big.Int }

type mirrorRes struct {
	status string   // "ok", "nil", "panic:<class>"
	amount *big.Int // sell: amount out; buy: amount in (before the 0.1 % on top)
	fills  []gFill
	table  []oracleEntry
	pre    []*big.Int // `rest` consumed before order j is filled (after the curve walk towards it)
	bounds []*big.Int // `rest` consumed after order j was fully consumed
}

func tableStr(t []oracleEntry) string {
	if len(t) == 0 {
		return "-"
	}
	var s []string
	for _, e := range t {
		s = append(s, fmt.Sprintf("%s:%s:%s:%s:%s", e.r0, e.r1, e.buy, e.sell, e.a0))
	}
	return strings.Join(s, ",")
}

func ratIntGo(num, den *big.Int) *big.Int { // the node's `new(big.Float).SetRat(rat).Int(nil)`
	v, _ := new(big.Float).SetRat(new(big.Rat).SetFrac(num, den)).Int(nil)
	return v
}

// oracleAsk evaluates the REAL CalculateAddAmountsForPrice on a stand-alone pair with reserves (r0, r1).
func oracleAsk(it *iavl.ImmutableTree, r0, r1 *big.Int, o *gOrder) (a0, a1 *big.Int) {
	p := swap.VerifNewPair(it, r0, r1)
	return p.CalculateAddAmountsForPrice(swap.CalcPriceSell(o.buy, o.sell))
}

func mirrorSell(it *iavl.ImmutableTree, r0in, r1in *big.Int, sorted []*gOrder, amountIn *big.Int) (res mirrorRes) {
	defer func() {
		if r := recover(); r != nil {
			res.status = panicClass(r)
		}
	}()
	r0, r1 := new(big.Int).Set(r0in), new(big.Int).Set(r1in)
	rest := new(big.Int).Set(amountIn)
	out := big.NewInt(0)
	consumed := func() *big.Int { return new(big.Int).Sub(amountIn, rest) }
	res.status = "ok"
	brk := false
	for _, o := range sorted {
		if rest.Sign() == 0 {
			res.amount = out
			return
		}
		if new(big.Rat).SetFrac(r1, r0).Cmp(new(big.Rat).SetFrac(o.sell, o.buy)) == 1 {
			a0, a1 := oracleAsk(it, r0, r1, o)
			e := oracleEntry{new(big.Int).Set(r0), new(big.Int).Set(r1), o.buy, o.sell, big.NewInt(0)}
			if a0 != nil && a1 != nil {
				e.a0 = a0
			}
			res.table = append(res.table, e)
			if a0 != nil && a1 != nil {
				if rest.Cmp(a0) != 1 {
					brk = true
					break
				}
				rest.Sub(rest, a0)
				out.Add(out, a1)
				p := swap.VerifNewPair(it, r0, r1)
				if err := p.CheckSwap(a0, a1); err != nil {
					panic(err)
				}
				r0.Add(r0, a0)
				r1.Sub(r1, a1)
			}
		}
		res.pre = append(res.pre, consumed())
		amount0 := new(big.Int).Sub(rest, swap.VerifCom1001(rest))
		if amount0.Cmp(o.buy) != 1 {
			var amount1 *big.Int
			if amount0.Sign() == 0 {
				amount1 = big.NewInt(0)
			} else {
				amount1 = ratIntGo(new(big.Int).Mul(o.sell, amount0), o.buy)
			}
			if amount1.Cmp(o.sell) == 0 && amount0.Cmp(o.buy) != 0 {
				panic("neg BFS 0")
			}
			if amount1.Cmp(o.sell) == 1 {
				amount1.Set(o.sell)
				if amount0.Cmp(o.buy) == -1 {
					amount1.Sub(amount1, big1)
				}
			}
			if amount1.Cmp(o.sell) == -1 && amount0.Cmp(o.buy) == 0 {
				amount1.Set(o.sell)
			}
			res.fills = append(res.fills, gFill{o.id, amount0, amount1})
			out.Add(out, new(big.Int).Sub(amount1, swap.VerifCom1000(amount1)))
			res.amount = out
			return
		}
		res.fills = append(res.fills, gFill{o.id, o.buy, o.sell})
		comS, comB := swap.VerifCom1000(o.buy), swap.VerifCom1000(o.sell)
		r0.Add(r0, comS)
		r1.Add(r1, comB)
		out.Add(out, new(big.Int).Sub(o.sell, comB))
		rest.Sub(rest, new(big.Int).Add(o.buy, comS))
		res.bounds = append(res.bounds, consumed())
	}
	if !brk && rest.Sign() == 0 {
		res.amount = out
		return
	}
	p := swap.VerifNewPair(it, r0, r1)
	if d := p.CalculateBuyForSell(rest); d != nil {
		if err := p.CheckSwap(rest, d); err != nil {
			panic(err)
		}
		out.Add(out, d)
	}
	res.amount = out
	return
}

func mirrorBuy(it *iavl.ImmutableTree, r0in, r1in *big.Int, sorted []*gOrder, amountOut *big.Int) (res mirrorRes) {
	defer func() {
		if r := recover(); r != nil {
			res.status = panicClass(r)
		}
	}()
	r0, r1 := new(big.Int).Set(r0in), new(big.Int).Set(r1in)
	rest := new(big.Int).Set(amountOut)
	in := big.NewInt(0)
	consumed := func() *big.Int { return new(big.Int).Sub(amountOut, rest) }
	res.status = "ok"
	brk := false
	for _, o := range sorted {
		if rest.Sign() == 0 {
			res.amount = in
			return
		}
		if new(big.Rat).SetFrac(r1, r0).Cmp(new(big.Rat).SetFrac(o.sell, o.buy)) == 1 {
			a0, a1 := oracleAsk(it, r0, r1, o)
			e := oracleEntry{new(big.Int).Set(r0), new(big.Int).Set(r1), o.buy, o.sell, big.NewInt(0)}
			if a0 != nil && a1 != nil {
				e.a0 = a0
			}
			res.table = append(res.table, e)
			if a0 != nil && a1 != nil {
				if rest.Cmp(a1) != 1 {
					brk = true
					break
				}
				rest.Sub(rest, a1)
				in.Add(in, a0)
				p := swap.VerifNewPair(it, r0, r1)
				if err := p.CheckSwap(a0, a1); err != nil {
					panic(err)
				}
				r0.Add(r0, a0)
				r1.Sub(r1, a1)
			}
		}
		res.pre = append(res.pre, consumed())
		amount1 := new(big.Int).Add(rest, swap.VerifCom0999(rest))
		if amount1.Cmp(o.sell) != 1 {
			amount0 := ratIntGo(new(big.Int).Mul(amount1, o.buy), o.sell)
			if amount1.Cmp(o.sell) == 0 && amount0.Cmp(o.buy) != 0 {
				if amount0.Cmp(o.buy) == -1 {
					amount0.Set(o.buy)
				} else {
					panic("neg SFB 0")
				}
			}
			if amount1.Cmp(o.sell) == -1 && amount0.Cmp(o.buy) == 0 {
				amount1.Set(o.sell)
			}
			res.fills = append(res.fills, gFill{o.id, amount0, amount1})
			in.Add(in, amount0)
			in.Add(in, swap.VerifCom1000(amount0))
			res.amount = in
			return
		}
		res.fills = append(res.fills, gFill{o.id, o.buy, o.sell})
		comS, comB := swap.VerifCom1000(o.buy), swap.VerifCom1000(o.sell)
		r0.Add(r0, comS)
		r1.Add(r1, comB)
		rest.Sub(rest, new(big.Int).Sub(o.sell, comB))
		in.Add(in, new(big.Int).Add(o.buy, comS))
		res.bounds = append(res.bounds, consumed())
	}
	if !brk && rest.Sign() == 0 {
		res.amount = in
		return
	}
	p := swap.VerifNewPair(it, r0, r1)
	d := p.CalculateSellForBuy(rest)
	if d == nil {
		if r0.Sign() < 1 || new(big.Int).Sub(r1, rest).Sign() < 1 {
			res.status = "nil"
			return
		}
		res.amount = in
		return
	}
	if err := p.CheckSwap(d, rest); err != nil {
		panic(err)
	}
	in.Add(in, d)
	res.amount = in
	return
}

func panicClass(r interface{}) string {
	if h, ok := r.(hangError); ok {
		hung = true
		return "hang:" + h.what
	}
	if err, ok := r.(error); ok {
		switch err {
		case swap.ErrorInsufficientInputAmount:
			return "panic:input"
		case swap.ErrorInsufficientOutputAmount:
			return "panic:output"
		case swap.ErrorK:
			return "panic:k"
		case swap.ErrorInsufficientLiquidity:
			return "panic:liquidity"
		}
	}
	s := fmt.Sprint(r)
	switch {
	case strings.Contains(s, "neg BFS"):
		return "panic:negBFS"
	case strings.Contains(s, "neg SFB"):
		return "panic:negSFB"
	case strings.Contains(s, "has one zero volume"):
		return "panic:onezero"
	case strings.Contains(s, "division by zero"):
		return "panic:divzero"
	}
	s = strings.Map(func(c rune) rune {
		if c == ' ' || c == '\n' || c == '=' {
			return '_'
		}
		return c
	}, s)
	if len(s) > 60 {
		s = s[:60]
	}
	return "panic:other:" + s
}

// ---------- world: a real SwapV2 on a real tree, with the harness's own book next to it ----------

type ordWorld struct {
	mem          *db.MemDB
	mt           tree.MTree
	bus          *bus.Bus
	rec          *ordRec
	s            *swap.SwapV2
	books        [2][]*gOrder // dir 0: taker sells coin 1 for coin 2; dir 1: taker sells coin 2 for coin 1
	height       uint64
	nextID       uint32
	dead         bool
	commitFailed string
	cold         [2]bool  // the side's best-first id list has not been loaded since the last restart
	taint2       bool     // a partial fill changed a float53 key while the id list was only partly loaded (F-ORD-2)
	taint        bool     // an order was removed from a cold side since the last commit (finding F-ORD-1 territory)
	ops          []string // human-readable history (replay aid)
}

func coinsOf(dir int) (types.CoinID, types.CoinID) {
	if dir == 0 {
		return 1, 2
	}
	return 2, 1
}

func newOrdWorld(rA, rB *big.Int) *ordWorld {
	w := &ordWorld{mem: db.NewMemDB(), rec: &ordRec{}, height: 100, nextID: 1}
	w.rec.reset()
	w.mt, _ = tree.NewMutableTree(0, w.mem, 1024, 0)
	w.bus = bus.NewBus()
	w.bus.SetAccounts(w.rec)
	w.bus.SetChecker(w.rec)
	w.bus.SetEvents(w.rec)
	w.s = swap.NewV2(w.bus, w.mt.GetLastImmutable())
	p := w.s.ReturnPair(1, 2)
	*p.ID = 1
	swap.VerifSetReserves(p, rA, rB)
	w.commit()
	w.ops = append(w.ops, fmt.Sprintf("pool %s %s", rA, rB))
	return w
}

func (w *ordWorld) commit() {
	if st := safeClass(func() {
		if _, _, err := w.mt.Commit(w.s); err != nil {
			panic(err)
		}
	}); st != "ok" {
		// e.g. a negative reserve cannot be encoded; reported by the caller through commitFailed
		w.dead = true
		w.commitFailed = st
		w.ops = append(w.ops, "commit FAILED "+st)
		return
	}
	for d := 0; d < 2; d++ {
		for _, o := range w.books[d] {
			o.committed = true
		}
	}
	w.taint = false
	w.ops = append(w.ops, "commit")
}

// restart: a fresh SwapV2 over the committed tree (what a node restart does to this module).
func (w *ordWorld) restart() {
	w.commit()
	w.s = swap.NewV2(w.bus, w.mt.GetLastImmutable())
	w.cold = [2]bool{true, true}
	w.taint2 = false
	w.ops = append(w.ops, "restart")
}

func (w *ordWorld) reserves(dir int) (*big.Int, *big.Int) {
	a, b := coinsOf(dir)
	return w.s.Pair(a, b).Reserves()
}

func (w *ordWorld) add(dir int, buy, sell *big.Int, owner int) *gOrder {
	a, b := coinsOf(dir)
	w.height++
	id, _ := w.s.PairAddOrder(a, b, new(big.Int).Set(buy), new(big.Int).Set(sell), ownerAddr(owner), w.height)
	o := &gOrder{id: id, buy: new(big.Int).Set(buy), sell: new(big.Int).Set(sell), owner: owner, height: w.height}
	w.books[dir] = append(w.books[dir], o)
	w.cold[dir] = false
	w.ops = append(w.ops, fmt.Sprintf("add dir=%d id=%d buy=%s sell=%s owner=%d h=%d", dir, id, buy, sell, owner, w.height))
	return o
}

// realList: the node's best-first list of the side `dir`, as "id:buy:sell" per order.
func (w *ordWorld) realList(dir int) (ids []uint32, desc []string, err string) {
	defer func() {
		if r := recover(); r != nil {
			err = panicClass(r)
		}
	}()
	a, b := coinsOf(dir)
	p := w.s.Pair(a, b)
	w.cold[dir] = false
	var ls []*swap.Limit
	guarded("OrdersSell", func() { ls = p.OrdersSell(uint32(len(w.books[dir]) + 3)) })
	for _, l := range ls {
		if l == nil {
			continue
		}
		ids = append(ids, l.ID())
		desc = append(desc, fmt.Sprintf("%d:%s:%s", l.ID(), l.WantBuy, l.WantSell))
	}
	return
}

func idsStr(ids []uint32) string {
	if len(ids) == 0 {
		return "-"
	}
	s := make([]string, len(ids))
	for i, v := range ids {
		s[i] = fmt.Sprint(v)
	}
	return strings.Join(s, ",")
}

// ---------- the mode ----------

// hangLimit bounds every call into the pair code: a call that does not return is reported (with the history) and ends
// the run, because the goroutine cannot be stopped.
var hangLimit = func() time.Duration {
	if v, err := time.ParseDuration(os.Getenv("VERIF_HANG")); err == nil && v > 0 {
		return v
	}
	// generous: a 12 000-order book on a loaded 16-core machine needs well over 25 s for one ExpireOrders (a false "hang" in the
	// thorough tier); the endless loop this guards against (fixed in /repo fa48978) never returns at all
	return 240 * time.Second
}()

type hangError struct{ what string }

func safeClass(f func()) (s string) {
	defer func() {
		if r := recover(); r != nil {
			s = panicClass(r)
		}
	}()
	f()
	return "ok"
}

func guarded(what string, f func()) {
	done := make(chan interface{}, 1)
	go func() {
		defer func() { done <- recover() }()
		f()
	}()
	select {
	case r := <-done:
		if r != nil {
			panic(r)
		}
	case <-time.After(hangLimit):
		panic(hangError{what})
	}
}

type ordCtx struct {
	r         *rand.Rand
	sink      *Sink
	res       *ModeResult
	it        *iavl.ImmutableTree // empty tree for stand-alone pairs
	trace     string
	counts    map[string]int
	shapes    map[string]int
	viols     int
	explicit  bool
	noCheck   bool      // suppress the list checks (they load the node's caches) during a scripted shape
	cur       *ordWorld // world the current Q lines belong to
	replaying bool      // replay: list checks happen only where the recorded history has them
}

func (c *ordCtx) q(fn string, line string) {
	nf := len(c.sink.Fails)
	c.sink.Op("Q " + fn + " " + line)
	if c.cur != nil && (c.cur.taint || c.cur.taint2) {
		tag := "cold-order-list: "
		if !c.cur.taint {
			tag = "partial-list-resort: "
		}
		for i := nf; i < len(c.sink.Fails); i++ {
			c.sink.Fails[i] = tag + c.sink.Fails[i]
		}
	}
	c.counts[fn]++
	c.res.Evaluations++
	if len(c.res.Samples) < 8 && c.r.Intn(400) == 0 && len(line) < 900 {
		c.res.Samples = append(c.res.Samples, "Q "+fn+" "+line)
	}
}

func (c *ordCtx) viol(prop, msg string, w *ordWorld) {
	c.viols++
	if c.viols > 40 {
		return
	}
	full := msg
	if w != nil && w.taint {
		// known pattern (F-ORD-1): an order was removed from a side whose id list was never loaded, no commit since
		full = "cold-order-list: " + full
	} else if w != nil && w.taint2 {
		// known pattern (F-ORD-2): re-sorting after a partial fill only looks at the loaded prefix of the list
		full = "partial-list-resort: " + full
	}
	if w != nil {
		full += " | history: " + strings.Join(w.ops, "; ")
		if len(full) > 6000 {
			full = full[:6000] + "…"
		}
	}
	if c.sink.file != nil { // comment for the human reader of the trace; not sent to the driver
		c.sink.file.WriteString("# VIOLATION " + prop + " " + full + "\n")
	}
	c.res.viol(prop, full, c.trace)
}

// checkList: the node's best-first list must be exactly the harness's book sorted independently (priority, C14),
// with the same volumes (state carried across operations, caches, commits, restarts).
func (c *ordCtx) checkList(w *ordWorld, dir int, when string) bool {
	c.cur = w
	if (c.replaying || c.noCheck) && !c.explicit {
		return true
	}
	if !c.replaying {
		w.ops = append(w.ops, fmt.Sprintf("check dir=%d", dir))
	}
	ids, desc, perr := w.realList(dir)
	if perr != "" {
		c.viol("C14", fmt.Sprintf("best-first iteration panicked (%s) %s dir=%d", perr, when, dir), w)
		w.dead = true
		return false
	}
	sorted := sortBook(w.books[dir], dir)
	var want []string
	var wantIDs []uint32
	for _, o := range sorted {
		want = append(want, fmt.Sprintf("%d:%s:%s", o.id, o.buy, o.sell))
		wantIDs = append(wantIDs, o.id)
	}
	ok := strings.Join(want, ",") == strings.Join(desc, ",")
	if !ok {
		c.viol("C14", fmt.Sprintf("best-first list differs %s dir=%d: node=%s expected=%s", when, dir, clip(strings.Join(desc, ","), 1500), clip(strings.Join(want, ","), 1500)), w)
		w.dead = true
	}
	// the Lean sort key (float53 rounding of the price, then id) must give the node's list
	sortedFlag := 1 - dir
	c.q("sortbook", fmt.Sprintf("%d %s = %s", sortedFlag, bookStr(w.books[dir]), idsStr(ids)))
	return ok
}

func fillsStr(f []gFill) string {
	if len(f) == 0 {
		return "-"
	}
	var s []string
	for _, x := range f {
		s = append(s, fmt.Sprintf("%d:%s:%s", x.id, x.buy, x.sell))
	}
	return strings.Join(s, ",")
}

type tradeOut struct {
	status  string
	in, out *big.Int // gross amounts as returned by the node
	fills   []gFill
	credits map[int]*big.Int
	closed  []string // id:owner:refund
	poolIn  *big.Int // details.AmountIn
	poolOut *big.Int // details.AmountOut
}

func (w *ordWorld) realTrade(dir int, sell bool, amount *big.Int) (t tradeOut) {
	a, b := coinsOf(dir)
	w.rec.reset()
	defer func() {
		if r := recover(); r != nil {
			t.status = panicClass(r)
		}
	}()
	var details *swap.ChangeDetailsWithOrders
	var owners []*swap.OrderDetail
	if sell {
		guarded("PairSellWithOrders", func() {
			t.in, t.out, _, details, owners = w.s.PairSellWithOrders(a, b, new(big.Int).Set(amount), big.NewInt(0))
		})
	} else {
		huge := new(big.Int).Exp(big.NewInt(10), big.NewInt(200), nil)
		guarded("PairBuyWithOrders", func() {
			t.in, t.out, _, details, owners = w.s.PairBuyWithOrders(a, b, huge, new(big.Int).Set(amount))
		})
	}
	t.status = "ok"
	t.poolIn, t.poolOut = details.AmountIn, details.AmountOut
	for _, l := range details.Orders {
		t.fills = append(t.fills, gFill{l.ID(), new(big.Int).Set(l.WantBuy), new(big.Int).Set(l.WantSell)})
	}
	t.credits = map[int]*big.Int{}
	for _, od := range owners {
		t.credits[ownerIdx(od.Owner)] = new(big.Int).Set(od.ValueBigInt)
	}
	for _, e := range w.rec.events {
		if oe, ok := e.(*eventsdb.OrderExpiredEvent); ok {
			t.closed = append(t.closed, fmt.Sprintf("%d:%d:%s", oe.ID, ownerIdx(oe.Address), oe.Amount))
		}
	}
	return
}

func creditsStr(m map[int]*big.Int) string {
	if len(m) == 0 {
		return "-"
	}
	var ks []int
	for k := range m {
		ks = append(ks, k)
	}
	sort.Ints(ks)
	var s []string
	for _, k := range ks {
		s = append(s, fmt.Sprintf("%d:%s", k, m[k]))
	}
	return strings.Join(s, ",")
}

func joinOr(s []string) string {
	if len(s) == 0 {
		return "-"
	}
	return strings.Join(s, ",")
}

// trade runs one taker trade on the world with all monitors and the Q line.
func (c *ordCtx) trade(w *ordWorld, dir int, sell bool, amount *big.Int, shape string) {
	c.cur = w
	// the list check loads the node's caches; do it only sometimes so that trades also meet cold / half-loaded caches
	if c.replaying || (!c.noCheck && c.r.Intn(2) == 0) {
		if !c.checkList(w, dir, "before trade") {
			return
		}
	}
	a, b := coinsOf(dir)
	r0, r1 := w.reserves(dir)
	book := w.books[dir]
	sorted := sortBook(book, dir)
	byID := map[uint32]*gOrder{}
	for _, o := range book {
		byID[o.id] = o
	}
	kind := "sellwo"
	if !sell {
		kind = "buywo"
	}
	c.shapes[kind+":"+shape]++
	w.ops = append(w.ops, fmt.Sprintf("%s dir=%d amount=%s", kind, dir, amount))

	// oracle table from the mirror (net amount on the sell side)
	var mir mirrorRes
	if sell {
		net := new(big.Int).Set(amount)
		if amount.Sign() == 1 {
			net.Sub(net, swap.VerifCom1000(amount))
		}
		if net.Sign() == 1 {
			mir = mirrorSell(c.it, r0, r1, sorted, net)
		}
	} else if amount.Sign() == 1 {
		mir = mirrorBuy(c.it, r0, r1, sorted, amount)
	}

	// quote first (what CheckTx / the tx handler's check uses), then the trade itself
	p := w.s.Pair(a, b)
	quote := func() (q string) {
		defer func() {
			if r := recover(); r != nil {
				q = panicClass(r)
			}
		}()
		var v *big.Int
		guarded("quote", func() {
			if sell {
				v, _ = p.CalculateBuyForSellWithOrders(new(big.Int).Set(amount))
			} else {
				v, _ = p.CalculateSellForBuyWithOrders(new(big.Int).Set(amount))
			}
		})
		return bs(v)
	}()
	cached := swap.VerifSellOrderIDs(p)
	listComplete := len(cached) > 0 && cached[len(cached)-1] == 0
	t := w.realTrade(dir, sell, amount)
	n0, n1 := w.reserves(dir)
	defer func() { w.cold[dir] = false }()

	var result string
	if t.status != "ok" {
		result = t.status
		if n0.Cmp(r0) != 0 || n1.Cmp(r1) != 0 {
			// a panic after the reserves were touched: the deliver path would keep a half-applied trade
			c.viol("C13", fmt.Sprintf("trade panicked (%s) after changing reserves %s,%s -> %s,%s", t.status, r0, r1, n0, n1), w)
		}
		w.dead = true // caches may be inconsistent after a panic inside the pair
	} else {
		amt := t.out
		if !sell {
			amt = t.in
		}
		result = fmt.Sprintf("%s;%s;%s;%s;%s;%s", amt, n0, n1, fillsStr(t.fills), creditsStr(t.credits), joinOr(t.closed))
	}
	sortedFlag := 1 - dir
	c.q(kind, fmt.Sprintf("%d %s %s %s %s %s = %s", sortedFlag, r0, r1, bookStr(book), amount, tableStr(mir.table), result))
	if t.status != "ok" {
		c.shapes[kind+":"+t.status]++
		return
	}

	// ---- monitors on the real result ----
	amt := t.out
	if !sell {
		amt = t.in
	}
	if quote != amt.String() {
		c.viol("C13", fmt.Sprintf("quote %s differs from executed amount %s (%s dir=%d amount=%s)", quote, amt, kind, dir, amount), w)
	}
	if mir.status == "ok" && (fillsStr(mir.fills) != fillsStr(t.fills)) {
		c.viol("C14", fmt.Sprintf("harness mirror fills %s differ from node fills %s", clip(fillsStr(mir.fills), 800), clip(fillsStr(t.fills), 800)), w)
	}
	// C13: product of reserves, pay-out within reserve, positive reserves
	if new(big.Int).Mul(n0, n1).Cmp(new(big.Int).Mul(r0, r1)) < 0 {
		c.viol("C13", fmt.Sprintf("product of reserves decreased: (%s,%s) -> (%s,%s) %s amount=%s", r0, r1, n0, n1, kind, amount), w)
	}
	// (details.AmountOut, the sum of the curve steps, may exceed the reserve before the trade: the commissions of the
	// orders consumed on the way are added to the reserve between the steps.  What must hold is that the pool never
	// ends up owing: both reserves stay positive.)
	if n0.Sign() <= 0 || n1.Sign() <= 0 {
		c.viol("C13", fmt.Sprintf("pool paid out more than it holds: curve steps out %s, reserve before %s; reserves after (%s,%s)", t.poolOut, r1, n0, n1), w)
	}
	if t.poolOut.Cmp(r1) > 0 {
		c.shapes["curve-out-exceeds-initial-reserve"]++
	}
	// C14: fills
	sumBuy, sumSell := big.NewInt(0), big.NewInt(0)
	wantCredits := map[int]*big.Int{}
	var wantClosed []string
	for i, f := range t.fills {
		o := byID[f.id]
		if o == nil {
			c.viol("C14", fmt.Sprintf("fill of unknown order %d", f.id), w)
			continue
		}
		if i >= len(sorted) || sorted[i].id != f.id {
			c.viol("C14", fmt.Sprintf("priority: fill #%d is order %d, best-first list says %d", i, f.id, func() uint32 {
				if i < len(sorted) {
					return sorted[i].id
				}
				return 0
			}()), w)
		}
		full := f.buy.Cmp(o.buy) == 0 && f.sell.Cmp(o.sell) == 0
		if i < len(t.fills)-1 && !full {
			c.viol("C14", fmt.Sprintf("priority: order %d filled only partially (%s/%s of %s/%s) but a worse order was touched", f.id, f.buy, f.sell, o.buy, o.sell), w)
		}
		if f.buy.Sign() < 0 || f.sell.Sign() < 0 || f.buy.Cmp(o.buy) > 0 || f.sell.Cmp(o.sell) > 0 {
			c.viol("C14", fmt.Sprintf("fill out of range: order %d %s/%s fill %s/%s", f.id, o.buy, o.sell, f.buy, f.sell), w)
		}
		// owner's price, one unit of the bought coin of rounding: Δsell·buy < (Δbuy+1)·sell
		lhs := new(big.Int).Mul(f.sell, o.buy)
		rhs := new(big.Int).Mul(new(big.Int).Add(f.buy, big1), o.sell)
		if lhs.Cmp(rhs) >= 0 {
			c.viol("C14", fmt.Sprintf("fill worse than the order's price: order %d wants buy=%s for sell=%s, fill gives buy=%s takes sell=%s", f.id, o.buy, o.sell, f.buy, f.sell), w)
		}
		remB, remS := new(big.Int).Sub(o.buy, f.buy), new(big.Int).Sub(o.sell, f.sell)
		if !full {
			// partially filled order keeps its price: |sell'·buy − sell·buy'| < max(buy, sell)
			d := new(big.Int).Sub(new(big.Int).Mul(remS, o.buy), new(big.Int).Mul(o.sell, remB))
			d.Abs(d)
			mx := o.buy
			if o.sell.Cmp(mx) > 0 {
				mx = o.sell
			}
			if d.Cmp(mx) >= 0 {
				c.viol("C14", fmt.Sprintf("partial fill moved the price: order %d %s/%s -> %s/%s", f.id, o.buy, o.sell, remB, remS), w)
			}
		}
		sumBuy.Add(sumBuy, f.buy)
		sumSell.Add(sumSell, f.sell)
		if wantCredits[o.owner] == nil {
			wantCredits[o.owner] = big.NewInt(0)
		}
		wantCredits[o.owner].Add(wantCredits[o.owner], f.buy)
		// book update + dust closure
		keyBefore := sortKeyF(o, dir)
		o.buy, o.sell = remB, remS
		if !full && remB.Sign() > 0 && remS.Sign() > 0 && !listComplete && sortKeyF(o, dir) != keyBefore {
			w.taint2 = true
			c.shapes["key-changed-on-partial-list"]++
		}
		if remB.Sign() == 0 && remS.Sign() == 0 {
			w.remove(dir, o.id)
		} else if remB.Cmp(minVol) < 0 || remS.Cmp(minVol) < 0 {
			wantClosed = append(wantClosed, fmt.Sprintf("%d:%d:%s", o.id, o.owner, remS))
			w.remove(dir, o.id)
			c.shapes["dust-closed"]++
		} else if !full {
			c.shapes["partial-kept"]++
		}
	}
	if creditsStr(wantCredits) != creditsStr(t.credits) {
		c.viol("C14", fmt.Sprintf("owner credits %s, fills imply %s", creditsStr(t.credits), creditsStr(wantCredits)), w)
	}
	if joinOr(wantClosed) != joinOr(t.closed) {
		c.viol("C14", fmt.Sprintf("dust closure: node closed %s, expected %s", joinOr(t.closed), joinOr(wantClosed)), w)
	}
	// refunds really credited through the accounts bus
	refunds := big.NewInt(0)
	var gotRefunds []string
	for _, cr := range w.rec.credits {
		if cr.coin == b {
			refunds.Add(refunds, cr.v)
			gotRefunds = append(gotRefunds, fmt.Sprintf("%d:%s", ownerIdx(cr.addr), cr.v))
		}
	}
	var wantRefunds []string
	for _, s := range wantClosed {
		f := strings.Split(s, ":")
		wantRefunds = append(wantRefunds, f[1]+":"+f[2])
	}
	if joinOr(gotRefunds) != joinOr(wantRefunds) {
		c.viol("C14", fmt.Sprintf("dust refunds credited %s, expected %s", joinOr(gotRefunds), joinOr(wantRefunds)), w)
	}
	// conservation: Σ in = Σ out + fees
	burn := swap.VerifCom1000(t.in)
	net := new(big.Int).Sub(t.in, burn)
	d0 := new(big.Int).Sub(n0, r0)
	if d0.Cmp(new(big.Int).Sub(net, sumBuy)) != 0 {
		c.viol("C13", fmt.Sprintf("conservation coin-in: Δreserve0=%s but in−burn−Σowners=%s", d0, new(big.Int).Sub(net, sumBuy)), w)
	}
	d1 := new(big.Int).Sub(n1, r1)
	if d1.Cmp(new(big.Int).Sub(sumSell, t.out)) != 0 {
		c.viol("C13", fmt.Sprintf("conservation coin-out: Δreserve1=%s but Σescrow−out=%s", d1, new(big.Int).Sub(sumSell, t.out)), w)
	}
	// the node's own checker deltas: coin in: +in −owners −burn ; coin out: −out −refunds
	chk0, chk1 := w.rec.coins[a], w.rec.coins[b]
	if chk0 == nil {
		chk0 = big0
	}
	if chk1 == nil {
		chk1 = big0
	}
	if chk0.Cmp(d0) != 0 || chk1.Cmp(new(big.Int).Neg(new(big.Int).Add(t.out, refunds))) != 0 {
		c.viol("C13", fmt.Sprintf("checker deltas %s,%s vs Δreserve0=%s, −out−refunds=%s", chk0, chk1, d0, new(big.Int).Neg(new(big.Int).Add(t.out, refunds))), w)
	}
	if len(t.fills) > 0 {
		c.res.Distinct++
	}
	if c.replaying || c.r.Intn(2) == 0 {
		c.checkList(w, dir, "after trade")
	}
	if c.replaying || c.r.Intn(3) == 0 {
		c.checkList(w, 1-dir, "after trade (other side)")
	}
}

func (w *ordWorld) remove(dir int, id uint32) {
	b := w.books[dir][:0:0]
	for _, o := range w.books[dir] {
		if o.id != id {
			b = append(b, o)
		}
	}
	w.books[dir] = b
}

// cancel: PairRemoveLimitOrder must return exactly the unfilled amount, once.
func (c *ordCtx) cancel(w *ordWorld, dir int, o *gOrder) {
	c.cur = w
	_, b := coinsOf(dir)
	w.ops = append(w.ops, fmt.Sprintf("cancel id=%d", o.id))
	w.rec.reset()
	var coin types.CoinID
	var vol *big.Int
	st := safeClass(func() {
		guarded("PairRemoveLimitOrder", func() { coin, vol = w.s.PairRemoveLimitOrder(o.id) })
	})
	if st != "ok" {
		c.viol("C14", fmt.Sprintf("cancel of order %d: %s", o.id, st), w)
		w.dead = true
		return
	}
	got := fmt.Sprintf("%d:%s", ownerIdx(ownerAddr(o.owner)), vol)
	if !o.committed {
		// an order that is not on disk yet cannot be found by id (same block): nothing is returned, order stays
		c.shapes["cancel-uncommitted"]++
		if vol.Sign() != 0 {
			c.viol("C14", fmt.Sprintf("cancel of uncommitted order %d returned %s", o.id, vol), w)
		}
		return
	}
	c.shapes["cancel"]++
	if w.cold[dir] {
		w.taint = true
		c.shapes["removal-on-cold-side"]++
	}
	c.q("cancelwo", fmt.Sprintf("%s %d = %s", bookStr(w.books[dir]), o.id, got))
	if vol.Cmp(o.sell) != 0 || coin != b {
		c.viol("C14", fmt.Sprintf("cancel of order %d returned %s of coin %d, unfilled amount is %s of coin %d", o.id, vol, coin, o.sell, b), w)
	}
	w.remove(dir, o.id)
	// once: a second cancel returns nothing
	var vol2 *big.Int
	st = safeClass(func() { guarded("PairRemoveLimitOrder", func() { _, vol2 = w.s.PairRemoveLimitOrder(o.id) }) })
	if st != "ok" || vol2.Sign() != 0 {
		c.viol("C14", fmt.Sprintf("second cancel of order %d returned %v (%s)", o.id, vol2, st), w)
	}
	c.q("cancelwo", fmt.Sprintf("%s %d = none", bookStr(w.books[dir]), o.id))
	if c.replaying || c.r.Intn(2) == 0 {
		c.checkList(w, dir, "after cancel")
	}
}

// expire: ExpireOrders(h) returns the unfilled amount of every committed order with height ≤ h, once.
func (c *ordCtx) expire(w *ordWorld, h uint64) {
	c.cur = w
	w.ops = append(w.ops, fmt.Sprintf("expire h=%d", h))
	w.rec.reset()
	if st := safeClass(func() { guarded("ExpireOrders", func() { w.s.ExpireOrders(h) }) }); st != "ok" {
		c.viol("C14", fmt.Sprintf("ExpireOrders(%d): %s", h, st), w)
		w.dead = true
		return
	}
	c.shapes["expire"]++
	if w.cold[0] || w.cold[1] {
		w.taint = true
		c.shapes["removal-on-cold-side"]++
	}
	var got []string
	for _, e := range w.rec.events {
		if oe, ok := e.(*eventsdb.OrderExpiredEvent); ok {
			got = append(got, fmt.Sprintf("%d:%d:%d:%s", oe.ID, ownerIdx(oe.Address), oe.Coin, oe.Amount))
		}
	}
	var credited []string
	for _, cr := range w.rec.credits {
		credited = append(credited, fmt.Sprintf("%d:%d:%s", ownerIdx(cr.addr), cr.coin, cr.v))
	}
	// expected: all committed orders (both sides) in id order while height ≤ h (the node stops at the first younger one)
	var all []*gOrder
	dirOf := map[uint32]int{}
	for d := 0; d < 2; d++ {
		for _, o := range w.books[d] {
			if o.committed {
				all = append(all, o)
				dirOf[o.id] = d
			}
		}
	}
	sort.Slice(all, func(i, j int) bool { return all[i].id < all[j].id })
	var want, wantCred []string
	var allS []string
	for _, o := range all {
		allS = append(allS, fmt.Sprintf("%d:%s:%s:%d:%d", o.id, o.buy, o.sell, o.owner, o.height))
	}
	var leanWant []string
	for _, o := range all {
		if o.height > h {
			break
		}
		_, b := coinsOf(dirOf[o.id])
		want = append(want, fmt.Sprintf("%d:%d:%d:%s", o.id, o.owner, b, o.sell))
		wantCred = append(wantCred, fmt.Sprintf("%d:%d:%s", o.owner, b, o.sell))
		leanWant = append(leanWant, fmt.Sprintf("%d:%d:%s", o.id, o.owner, o.sell))
		w.remove(dirOf[o.id], o.id)
	}
	if joinOr(got) != joinOr(want) || joinOr(credited) != joinOr(wantCred) {
		c.viol("C14", fmt.Sprintf("expire(%d): events %s credits %s, expected %s", h, joinOr(got), joinOr(credited), joinOr(want)), w)
	}
	c.q("expirewo", fmt.Sprintf("%s %d = %s", joinOr(allS), h, joinOr(leanWant)))
	// once more: nothing left to expire at that height
	w.rec.reset()
	safeClass(func() { guarded("ExpireOrders", func() { w.s.ExpireOrders(h) }) })
	if len(w.rec.credits) != 0 {
		c.viol("C14", fmt.Sprintf("expire(%d) paid a second time: %d credits", h, len(w.rec.credits)), w)
	}
	if c.replaying || c.r.Intn(2) == 0 {
		c.checkList(w, 0, "after expire")
		c.checkList(w, 1, "after expire")
	}
}

// ---------- generators ----------

// pow10 is shared with mode_bancor.go (identical definition); logUniform there differs at the top decade, hence ordLogUniform.
func ordLogUniform(r *rand.Rand, loExp, hiExp int) *big.Int {
	e := loExp + r.Intn(hiExp-loExp+1)
	m := pow10(e)
	v := new(big.Int).Rand(r, new(big.Int).Mul(m, big.NewInt(9)))
	return v.Add(v, m)
}

func genReserves(r *rand.Rand) (*big.Int, *big.Int, string) {
	switch r.Intn(10) {
	case 0: // tiny pool next to big orders
		return big.NewInt(int64(1 + r.Intn(2000))), big.NewInt(int64(1 + r.Intn(2000))), "tiny"
	case 1: // extreme ratio
		if r.Intn(2) == 0 {
			return ordLogUniform(r, 0, 4), ordLogUniform(r, 24, 30), "extreme"
		}
		return ordLogUniform(r, 24, 30), ordLogUniform(r, 0, 4), "extreme"
	case 2:
		e := 12 + r.Intn(18)
		return pow10(e), pow10(e), "equal"
	case 3:
		return pow10(30), pow10(30), "max"
	}
	return ordLogUniform(r, 10, 29), ordLogUniform(r, 10, 29), "mid"
}

// genOrder: price = pool price × num/den with num/den in [1/5, 1] (the band AddLimitOrder allows), or off-band.
func genOrder(r *rand.Rand, r0, r1 *big.Int, prev []*gOrder) (buy, sell *big.Int, shape string) {
	if len(prev) > 0 && r.Intn(6) == 0 { // same price at double precision as an existing order
		o := prev[r.Intn(len(prev))]
		switch r.Intn(3) {
		case 0:
			return new(big.Int).Set(o.buy), new(big.Int).Set(o.sell), "tie-same"
		case 1:
			k := big.NewInt(int64(2 + r.Intn(7)))
			return new(big.Int).Mul(o.buy, k), new(big.Int).Mul(o.sell, k), "tie-scaled"
		default: // differs far below double precision
			k := pow10(20)
			b := new(big.Int).Mul(o.buy, k)
			s := new(big.Int).Mul(o.sell, k)
			if r.Intn(2) == 0 {
				b.Add(b, big1)
			} else {
				s.Add(s, big1)
			}
			return b, s, "tie-float"
		}
	}
	var buyV *big.Int
	switch r.Intn(8) {
	case 0:
		buyV = new(big.Int).Set(minVol)
		shape = "minvol"
	case 1:
		k := int64(1 + r.Intn(50))
		buyV = new(big.Int).Mul(minVol, big.NewInt(k))
		buyV.Add(buyV, big.NewInt(int64(r.Intn(3)-1)))
		if buyV.Cmp(minVol) < 0 {
			buyV.Set(minVol)
		}
		shape = "k-minvol"
	default:
		buyV = ordLogUniform(r, 10, 27)
		shape = "rand"
	}
	num, den := int64(1), int64(1)
	switch r.Intn(10) {
	case 0: // exactly the pool price
		shape += "/top"
	case 1:
		den = 5
		shape += "/bottom"
	case 2: // off band: better than the pool price for the taker (can only arise after the pool price moved)
		num, den = int64(1001+r.Intn(3000)), 1000
		shape += "/above"
	case 3: // off band: far below
		num, den = 1, int64(6+r.Intn(1000))
		shape += "/below"
	default:
		den = 1000000
		num = 200000 + r.Int63n(800001)
		shape += "/in"
	}
	// sell = buy × (r1/r0) × num/den
	s := new(big.Int).Mul(buyV, r1)
	s.Mul(s, big.NewInt(num))
	s.Quo(s, new(big.Int).Mul(r0, big.NewInt(den)))
	if s.Cmp(minVol) < 0 {
		// scale the order up so that both sides reach the minimum volume
		f := new(big.Int).Quo(new(big.Int).Mul(minVol, big.NewInt(2)), new(big.Int).Add(s, big1))
		f.Add(f, big1)
		buyV.Mul(buyV, f)
		s = new(big.Int).Mul(buyV, r1)
		s.Mul(s, big.NewInt(num))
		s.Quo(s, new(big.Int).Mul(r0, big.NewInt(den)))
		if s.Cmp(minVol) < 0 {
			s.Set(minVol)
		}
		shape += "/scaled"
	}
	return buyV, s, shape
}

func gross(net *big.Int) *big.Int { // amount whose 0.1 % burn leaves about `net`
	g := new(big.Int).Mul(net, big.NewInt(1000))
	g.Quo(g, big.NewInt(999))
	return g
}

// genAmount picks the taker amount using the boundaries found by a mirror run over the whole book.
func (c *ordCtx) genAmount(w *ordWorld, dir int, sell bool) (*big.Int, string) {
	r := c.r
	r0, r1 := w.reserves(dir)
	sorted := sortBook(w.books[dir], dir)
	jit := func(v *big.Int) *big.Int {
		v = new(big.Int).Add(v, big.NewInt(int64(r.Intn(5)-2)))
		if v.Sign() <= 0 {
			v = big.NewInt(1)
		}
		return v
	}
	var mir mirrorRes
	if len(sorted) > 0 && r.Intn(10) < 7 {
		if sell {
			mir = mirrorSell(c.it, r0, r1, sorted, pow10(45))
		} else {
			mir = mirrorBuy(c.it, r0, r1, sorted, pow10(45))
		}
	}
	pick := r.Intn(10)
	switch {
	case pick < 3 && len(mir.bounds) > 0: // ends exactly at an order boundary ±
		j := r.Intn(len(mir.bounds))
		if r.Intn(3) == 0 {
			j = len(mir.bounds) - 1
		}
		if sell {
			return jit(gross(mir.bounds[j])), "boundary"
		}
		return jit(mir.bounds[j]), "boundary"
	case pick < 5 && len(mir.pre) > 0: // partial fill leaving exactly minimum−1 (±) of the order
		j := r.Intn(len(mir.pre))
		o := sorted[j]
		if sell {
			keep := new(big.Int).Sub(minVol, big.NewInt(int64(r.Intn(3))))
			if r.Intn(4) == 0 {
				keep = big.NewInt(int64(1 + r.Intn(3)))
			}
			a0 := new(big.Int).Sub(o.buy, keep)
			if a0.Sign() <= 0 {
				a0 = big.NewInt(1)
			}
			x := new(big.Int).Mul(a0, big.NewInt(1001))
			x.Quo(x, big.NewInt(1000))
			x.Add(x, big.NewInt(int64(r.Intn(3))))
			return jit(gross(new(big.Int).Add(mir.pre[j], x))), "leave-min"
		}
		keep := new(big.Int).Sub(minVol, big.NewInt(int64(r.Intn(3))))
		if r.Intn(4) == 0 {
			keep = big.NewInt(int64(1 + r.Intn(3)))
		}
		a1 := new(big.Int).Sub(o.sell, keep)
		if a1.Sign() <= 0 {
			a1 = big.NewInt(1)
		}
		x := new(big.Int).Mul(a1, big.NewInt(999))
		x.Quo(x, big.NewInt(1000))
		return jit(new(big.Int).Add(mir.pre[j], x)), "leave-min"
	case pick < 6 && len(mir.pre) > 0: // inside an order
		j := r.Intn(len(mir.pre))
		o := sorted[j]
		var span *big.Int
		if sell {
			span = o.buy
		} else {
			span = o.sell
		}
		x := new(big.Int).Rand(r, span)
		v := new(big.Int).Add(mir.pre[j], x)
		if sell {
			v = gross(v)
		}
		return jit(v), "inside"
	case pick < 7 && len(mir.bounds) > 0 && len(mir.bounds) == len(sorted): // whole book and more
		v := new(big.Int).Set(mir.bounds[len(mir.bounds)-1])
		if sell {
			v = gross(v)
			v.Add(v, ordLogUniform(r, 0, 25))
			return v, "whole+"
		}
		extra := new(big.Int).Rand(r, new(big.Int).Add(r1, big1))
		return v.Add(v, extra), "whole+"
	case pick == 7: // below the first step
		if r.Intn(40) == 0 {
			return big.NewInt(0), "zero" // entry-point guard (panic INSUFFICIENT_INPUT_AMOUNT)
		}
		return big.NewInt(int64(1 + r.Intn(3000))), "tiny"
	}
	if sell {
		return ordLogUniform(r, 3, 30), "rand"
	}
	// buy: random share of what is obtainable
	tot := new(big.Int).Set(r1)
	for _, o := range sorted {
		tot.Add(tot, o.sell)
	}
	v := new(big.Int).Rand(r, tot)
	if r.Intn(6) == 0 {
		v.Add(tot, big.NewInt(int64(r.Intn(5)-2))) // around / above everything there is
	}
	if v.Sign() <= 0 {
		v = big.NewInt(1)
	}
	return v, "rand"
}

// ---------- float kernels ----------

func f64hex(f *big.Float) string {
	v, acc := f.Float64()
	if acc != big.Exact || math.IsInf(v, 0) || v == 0 || math.Float64bits(v)>>52 == 0 {
		return "range"
	}
	return fmt.Sprintf("%x", math.Float64bits(v))
}

func (c *ordCtx) floatKernels(n int) {
	r := c.r
	for i := 0; i < n; i++ {
		var num, den *big.Int
		switch r.Intn(8) {
		case 0: // exact halfway cases: (2^53·k + 2^52... ) built as (m·2 + 1) / 2 with m a 53-bit number
			m := new(big.Int).Rand(r, new(big.Int).Lsh(big1, 52))
			m.Add(m, new(big.Int).Lsh(big1, 52))
			num = new(big.Int).Add(new(big.Int).Lsh(m, 1), big1)
			den = new(big.Int).Lsh(big1, uint(r.Intn(90)))
			if r.Intn(2) == 0 {
				num.Lsh(num, uint(r.Intn(60)))
			}
		case 1:
			num, den = posBig(r, 30), posBig(r, 30)
		case 2: // near halfway ± 1 at high precision
			m := new(big.Int).Rand(r, new(big.Int).Lsh(big1, 52))
			m.Add(m, new(big.Int).Lsh(big1, 52))
			k := uint(10 + r.Intn(60))
			num = new(big.Int).Lsh(new(big.Int).Add(new(big.Int).Lsh(m, 1), big1), k)
			num.Add(num, big.NewInt(int64(r.Intn(3)-1)))
			den = new(big.Int).Lsh(big1, uint(r.Intn(100)))
		case 3: // mantissa all ones: rounding carries into the next binade
			num = new(big.Int).Sub(new(big.Int).Lsh(big1, uint(54+r.Intn(40))), big.NewInt(int64(1+r.Intn(3))))
			den = posBig(r, 12)
		default:
			num, den = ordLogUniform(r, 0, 40), ordLogUniform(r, 0, 40)
		}
		if num.Sign() <= 0 || den.Sign() <= 0 {
			continue
		}
		c.q("rn53", fmt.Sprintf("%s %s = %s", num, den, f64hex(swap.CalcPriceSell(den, num))))
		c.q("ratint", fmt.Sprintf("%s %s = %s", num, den, ratIntGo(num, den)))
		if i%4 == 0 {
			// the on-disk index key must order prices exactly as the float comparison does
			n2, d2 := num, den
			switch r.Intn(3) {
			case 0:
				n2 = new(big.Int).Add(num, big.NewInt(int64(r.Intn(3)-1)))
			case 1:
				n2, d2 = ordLogUniform(r, 0, 40), ordLogUniform(r, 0, 40)
			}
			if n2.Sign() <= 0 {
				n2 = big1
			}
			fa, fb := swap.CalcPriceSell(den, num), swap.CalcPriceSell(d2, n2)
			ka, pa := swap.VerifPricePath(fa, 7, true)
			kb, pb := swap.VerifPricePath(fb, 7, true)
			c.res.Evaluations++
			c.counts["pricepath"]++
			if pa || pb {
				c.shapes["pricepath-panic"]++
				continue
			}
			if sgn(bytes.Compare(ka, kb)) != fa.Cmp(fb) {
				e1, e2 := fa.MantExp(nil), fb.MantExp(nil)
				if e1 > -400 && e1 < 400 && e2 > -400 && e2 < 400 { // the exponent byte wraps outside ±127 decimal
					c.viol("C14", fmt.Sprintf("on-disk price key order differs from price order: %s/%s vs %s/%s", num, den, n2, d2), nil)
				} else {
					c.shapes["pricepath-exponent-wrap"]++
				}
			}
		}
	}
}

func sgn(x int) int {
	if x < 0 {
		return -1
	}
	if x > 0 {
		return 1
	}
	return 0
}

// OrdersMode: see the file comment.
func OrdersMode(seed int64, n int, tier, driver, keep string) ModeResult {
	res := ModeResult{Notes: map[string]interface{}{}}
	r := rand.New(rand.NewSource(seed))
	tracePath := fmt.Sprintf("%s/orders-%d.trace", keep, seed)
	os.MkdirAll(keep, 0o755)
	sink, err := NewSink(tracePath, driver)
	if err != nil {
		res.Crash = err.Error()
		return res
	}
	// the pair code logs and prints on several branches
	log.SetOutput(ioutil.Discard)
	devnull, _ := os.OpenFile(os.DevNull, os.O_WRONLY, 0)
	realStdout := os.Stdout
	os.Stdout = devnull
	defer func() { os.Stdout = realStdout; devnull.Close() }()

	mt, _ := tree.NewMutableTree(0, db.NewMemDB(), 1024, 0)
	c := &ordCtx{r: r, sink: sink, res: &res, it: mt.GetLastImmutable(), trace: tracePath, counts: map[string]int{}, shapes: map[string]int{}}
	start := time.Now()
	budget := 100 * time.Second
	if tier == "thorough" {
		budget = 25 * time.Minute
	}

	c.floatKernels(n * 4)
	c.cur = nil

	worlds := 0
	for i := 0; i < n && time.Since(start) < budget && !hung; i++ {
		rA, rB, rshape := genReserves(r)
		w := newOrdWorld(rA, rB)
		worlds++
		c.shapes["pool:"+rshape]++
		nOrd := 0
		switch k := r.Intn(10); {
		case k == 0:
			nOrd = 0
		case k < 4:
			nOrd = 1 + r.Intn(4)
		default:
			nOrd = 1 + r.Intn(40)
		}
		if tier == "thorough" && i%40 == 7 {
			nOrd = 10000 + r.Intn(2001) // crosses the 10 000-id paging of the cached lists
			c.shapes["book:huge"]++
		}
		mainDir := r.Intn(2)
		nOwners := 1 + r.Intn(5)
		for k := 0; k < nOrd; k++ {
			dir := mainDir
			if r.Intn(5) == 0 {
				dir = 1 - dir
			}
			r0, r1 := w.reserves(dir)
			buy, sell, sh := genOrder(r, r0, r1, w.books[dir])
			w.add(dir, buy, sell, r.Intn(nOwners))
			if nOrd <= 40 {
				c.shapes["order:"+sh]++
			}
			if r.Intn(7) == 0 {
				w.commit()
			}
		}
		if r.Intn(3) != 0 {
			w.commit()
		}
		if r.Intn(6) == 0 {
			w.restart()
		}
		nOps := 2 + r.Intn(6)
		if nOrd > 1000 {
			nOps = 3
		}
		for k := 0; k < nOps && !w.dead && !hung; k++ {
			dir := mainDir
			if r.Intn(4) == 0 {
				dir = 1 - dir
			}
			switch op := r.Intn(20); {
			case op < 7:
				a, sh := c.genAmount(w, dir, true)
				c.trade(w, dir, true, a, sh)
			case op < 13:
				a, sh := c.genAmount(w, dir, false)
				c.trade(w, dir, false, a, sh)
			case op < 15:
				if len(w.books[dir]) > 0 {
					c.cancel(w, dir, w.books[dir][r.Intn(len(w.books[dir]))])
				}
			case op < 16:
				h := w.height - uint64(r.Intn(12))
				if r.Intn(4) == 0 {
					h = w.height
				}
				w.commit() // expiry runs at the start of a block: everything before it is committed
				c.expire(w, h)
			case op < 18:
				r0, r1 := w.reserves(dir)
				buy, sell, _ := genOrder(r, r0, r1, w.books[dir])
				w.add(dir, buy, sell, r.Intn(nOwners))
				c.shapes["re-add"]++
				c.checkList(w, dir, "after add")
			case op < 19:
				w.commit()
			default:
				if r.Intn(2) == 0 {
					w.restart()
					break
				}
				// shape "cold side, removals and a trade in the same block": restart (cold caches), remove the best
				// 1–4 orders of the side (cancel or expiry), trade at once, no commit and no list check in between
				w.restart()
				c.shapes["cold-same-block"]++
				c.noCheck = true
				sorted := sortBook(w.books[dir], dir)
				kk := 1 + r.Intn(4)
				if r.Intn(4) == 0 && len(sorted) > 0 {
					// expiry of everything up to the height of some order
					c.expire(w, sorted[r.Intn(len(sorted))].height)
				} else {
					for j := 0; j < kk && j < len(sorted) && !w.dead; j++ {
						c.cancel(w, dir, sorted[j])
					}
				}
				if !w.dead && !hung {
					sell := r.Intn(2) == 0
					a, sh := c.genAmount(w, dir, sell)
					c.noCheck = true
					c.trade(w, dir, sell, a, sh)
				}
				c.noCheck = false
				if !w.dead && !hung {
					c.checkList(w, dir, "after cold same-block shape")
				}
			}
		}
		if w.commitFailed != "" {
			c.viol("C13", "Commit of the swap state failed: "+w.commitFailed, w)
		}
		if !w.dead && !hung {
			w.commit()
			c.checkList(w, 0, "after final commit")
			c.checkList(w, 1, "after final commit")
		}
	}
	sink.Close()
	for _, f := range sink.Fails {
		res.viol("", clip(f, 3000), tracePath)
	}
	if len(sink.Fails) == 0 && len(res.Violations) == 0 {
		os.Remove(tracePath)
	}
	res.Notes["per_fn"] = c.counts
	res.Notes["shapes"] = c.shapes
	res.Notes["worlds"] = worlds
	res.Notes["seconds"] = int(time.Since(start).Seconds())
	return res
}

// OrdersReplay re-executes one recorded history (the `history:` part of a violation message, or the same text in a
// file) on a fresh world with all monitors, printing the node's best-first lists after every step.
func OrdersReplay(history, driver, keep string) ModeResult {
	res := ModeResult{Notes: map[string]interface{}{}}
	if b, err := ioutil.ReadFile(history); err == nil {
		history = string(b)
	}
	if i := strings.Index(history, "history:"); i >= 0 {
		history = history[i+len("history:"):]
	}
	log.SetOutput(ioutil.Discard)
	tracePath := fmt.Sprintf("%s/orders-replay.trace", keep)
	os.MkdirAll(keep, 0o755)
	sink, err := NewSink(tracePath, driver)
	if err != nil {
		res.Crash = err.Error()
		return res
	}
	mt, _ := tree.NewMutableTree(0, db.NewMemDB(), 1024, 0)
	c := &ordCtx{r: rand.New(rand.NewSource(1)), sink: sink, res: &res, it: mt.GetLastImmutable(), trace: tracePath, counts: map[string]int{}, shapes: map[string]int{}, replaying: true}
	var w *ordWorld
	kv := func(f []string, k string) string {
		for _, x := range f {
			if strings.HasPrefix(x, k+"=") {
				return x[len(k)+1:]
			}
		}
		return ""
	}
	bi := func(s string) *big.Int { v, _ := new(big.Int).SetString(s, 10); return v }
	var steps []string
	for _, op := range strings.Split(history, ";") {
		f := strings.Fields(op)
		if len(f) == 0 {
			continue
		}
		if w != nil && w.dead {
			break
		}
		switch f[0] {
		case "pool":
			w = newOrdWorld(bi(f[1]), bi(f[2]))
		case "commit":
			if w != nil {
				w.commit()
			}
		case "restart":
			w.restart()
		case "add":
			var d, o int
			fmt.Sscan(kv(f, "dir"), &d)
			fmt.Sscan(kv(f, "owner"), &o)
			w.add(d, bi(kv(f, "buy")), bi(kv(f, "sell")), o)
		case "cancel":
			var id uint32
			fmt.Sscan(kv(f, "id"), &id)
			for d := 0; d < 2; d++ {
				for _, o := range w.books[d] {
					if o.id == id {
						c.cancel(w, d, o)
					}
				}
			}
		case "expire":
			var h uint64
			fmt.Sscan(kv(f, "h"), &h)
			c.expire(w, h)
		case "sellwo", "buywo":
			var d int
			fmt.Sscan(kv(f, "dir"), &d)
			c.trade(w, d, f[0] == "sellwo", bi(kv(f, "amount")), "replay")
		case "check":
			var d int
			fmt.Sscan(kv(f, "dir"), &d)
			c.explicit = true
			ok := c.checkList(w, d, "replay")
			c.explicit = false
			ids, _, _ := w.realList(d)
			steps = append(steps, fmt.Sprintf("check dir=%d ok=%v node=%s", d, ok, idsStr(ids)))
			continue
		default:
			continue
		}
		steps = append(steps, strings.TrimSpace(op))
	}
	sink.Close()
	for _, f := range sink.Fails {
		res.viol("", clip(f, 3000), tracePath)
	}
	res.Notes["steps"] = steps
	return res
}
