package main

import (
	"fmt"
	"math/big"
	"math/rand"
	"os"
	"strings"

	"github.com/MinterTeam/minter-go-node/coreV2/state/bus"
	"github.com/MinterTeam/minter-go-node/coreV2/state/candidates"
	"github.com/MinterTeam/minter-go-node/coreV2/state/validators"
	"github.com/MinterTeam/minter-go-node/coreV2/types"
	"github.com/MinterTeam/minter-go-node/upgrades"
)

func copyBits(b *types.BitArray) *types.BitArray {
	c := types.NewBitArray(int(b.Size()))
	for i := 0; i < int(b.Size()); i++ {
		c.SetIndex(i, b.GetIndex(i))
	}
	return c
}

func bitsOf(b *types.BitArray) string {
	var sb strings.Builder
	for i := 0; i < int(b.Size()); i++ {
		if b.GetIndex(i) {
			sb.WriteByte('1')
		} else {
			sb.WriteByte('0')
		}
	}
	return sb.String()
}

// BeginKernels: the small pure pieces of BeginBlock's absence / jail / grace logic evaluated by the real code
// (`Validator.SetAbsent/SetPresent/CountAbsentTimes`, `upgrades.Grace.IsGraceBlock`, `Candidates.IsCandidateJailed`)
// against the Lean definitions the C18 theorems are about (`beginEvalQ`).
func BeginKernels(seed int64, n int, driver, keep string) ModeResult {
	res := ModeResult{Notes: map[string]interface{}{}}
	r := rand.New(rand.NewSource(seed))
	tracePath := fmt.Sprintf("%s/beginq-%d.trace", keep, seed)
	os.MkdirAll(keep, 0o755)
	sink, err := NewSink(tracePath, driver)
	if err != nil {
		res.Crash = err.Error()
		return res
	}
	counts := map[string]int{}
	emit := func(line string) {
		sink.Op(line)
		counts[strings.Fields(line)[1]]++
		res.Evaluations++
		if len(res.Samples) < 6 && r.Intn(80) == 0 {
			res.Samples = append(res.Samples, line)
		}
	}
	heightOf := func() uint64 {
		switch r.Intn(4) {
		case 0:
			return uint64(r.Intn(50))
		case 1:
			return uint64(10200000 + r.Intn(300))
		case 2:
			return uint64(24 * r.Intn(1000000))
		}
		return r.Uint64() >> uint(r.Intn(40)+1)
	}
	nAbove := 0
	for i := 0; i < n; i++ {
		// absence window: densities around the 12-of-24 threshold
		bits := types.NewBitArray(validators.ValidatorMaxAbsentWindow)
		want := 9 + r.Intn(8)
		if r.Intn(5) == 0 {
			want = r.Intn(25)
		}
		for _, j := range r.Perm(24)[:want] {
			bits.SetIndex(j, true)
		}
		h := heightOf()
		in := bitsOf(bits)
		var pk types.Pubkey
		r.Read(pk[:])
		emit(fmt.Sprintf("Q absent %s %d = %s", in, h, safe(func() string {
			v := validators.NewValidator(pk, copyBits(bits), big.NewInt(0), big.NewInt(0), false, false, false, nil)
			v.SetAbsent(h)
			c := v.CountAbsentTimes()
			if c > 12 {
				nAbove++
			}
			return fmt.Sprintf("%s,%d", bitsOf(v.AbsentTimes), c)
		})))
		emit(fmt.Sprintf("Q present %s %d = %s", in, h, safe(func() string {
			v := validators.NewValidator(pk, copyBits(bits), big.NewInt(0), big.NewInt(0), false, false, false, nil)
			v.SetPresent(h)
			return fmt.Sprintf("%s,%d", bitsOf(v.AbsentTimes), v.CountAbsentTimes())
		})))
		// grace periods: boundaries of every period
		g := upgrades.NewGrace()
		var ps []string
		var edges []uint64
		for k := r.Intn(4); k > 0; k-- {
			from := heightOf()
			to := from + uint64(r.Intn(200))
			g.AddGracePeriods(upgrades.NewGracePeriod(from, to, r.Intn(2) == 0))
			ps = append(ps, fmt.Sprintf("%d:%d", from, to))
			edges = append(edges, from, to)
		}
		gh := heightOf()
		if len(edges) > 0 && r.Intn(4) != 0 {
			gh = edges[r.Intn(len(edges))] + uint64(r.Intn(3)) - 1
		}
		pstr := strings.Join(ps, ",")
		if pstr == "" {
			pstr = "-"
		}
		emit(fmt.Sprintf("Q grace %s %d = %s", pstr, gh, safe(func() string {
			if g.IsGraceBlock(gh) {
				return "1"
			}
			return "0"
		})))
		// jail: JailedUntil >= block
		until := heightOf()
		blk := until + uint64(r.Intn(5)) - 2
		if r.Intn(4) == 0 {
			blk = heightOf()
		}
		emit(fmt.Sprintf("Q jailed %d %d = %s", until, blk, safe(func() string {
			cs := candidates.NewCandidates(bus.NewBus(), nil)
			cs.CreateWithID(types.Address{1}, types.Address{2}, types.Address{3}, pk, 10, 1, 0, until)
			if cs.IsCandidateJailed(pk, blk) {
				return "1"
			}
			return "0"
		})))
	}
	sink.Close()
	for _, f := range sink.Fails {
		res.viol("C18", f, tracePath)
	}
	if len(sink.Fails) == 0 {
		os.Remove(tracePath)
	}
	res.Distinct = res.Evaluations
	res.Notes["per_kernel"] = counts
	res.Notes["absent_above_threshold"] = nAbove
	return res
}
