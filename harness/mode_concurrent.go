package main

import (
	"bytes"
	"context"
	"crypto/ecdsa"
	"fmt"
	"io/ioutil"
	"math/big"
	"math/rand"
	"os"
	"os/exec"
	"regexp"
	"runtime/pprof"
	"sort"
	"strings"
	"sync"
	"sync/atomic"
	"syscall"
	"time"

	"github.com/MinterTeam/minter-go-node/api/v2/service"
	"github.com/MinterTeam/minter-go-node/coreV2/minter"
	"github.com/MinterTeam/minter-go-node/coreV2/state/swap"
	tx "github.com/MinterTeam/minter-go-node/coreV2/transaction"
	"github.com/MinterTeam/minter-go-node/coreV2/types"
	"github.com/MinterTeam/minter-go-node/rlp"
	pb "github.com/MinterTeam/node-grpc-gateway/api_pb"
	"google.golang.org/protobuf/types/known/wrapperspb"
)

// Readers (C25): goroutines that are API clients of the running node: they call the REAL gRPC handlers of
// api/v2/service (the functions the gRPC server registers; the server adds only a recover() around them) on the node
// that executes the history: balances (Address with delegated stakes, Addresses), Candidate / Candidates with stakes,
// CoinInfo(ById), the three estimate calls with every swap_from, with the fee coin = base coin and = custom coins (the
// fee conversion through a pool - with limit orders when the pool has some - is then simulated on the pool), with and
// without routes, EstimateTxCommission on serialized transactions, SwapPool(s), SwapPoolProvider, LimitOrder(s)(OfPool),
// BestTrade of both types (route search), Frozen(All), WaitList, Halts, MaxGasPrice, PriceCommission, votes, MissedBlocks,
// VersionNetwork, Events; and the export of a committed height. Arguments come from the running world: the world's
// addresses and public keys, the coin counter, and what SwapPools (with orders) answers (pools that carry orders, order ids).
// Handlers that need the Tendermint node / RPC client (Status, Block(s), Transaction(s), Validators, NetInfo, Genesis,
// MinGasPrice, SendTransaction, UnconfirmedTxs, Subscribe) are not called: there is no Tendermint in the harness.
// Handler errors are answers; a handler panic is recovered (as the gRPC server does) and counted.
type Readers struct {
	stop   chan struct{}
	wg     sync.WaitGroup
	Calls  int64
	mu     sync.Mutex
	Panics []string
	Stats  map[string]int64 // per handler: calls, and "<handler>.err" answers with an error
}

func (r *Readers) note(key string, n int64) {
	r.mu.Lock()
	r.Stats[key] += n
	r.mu.Unlock()
}

// poolView: what a client learned from SwapPools.
type poolView struct {
	c0, c1   uint64
	orders   []uint64 // ids of its limit orders (both sides)
	nSell    int
	nBuy     int
	liquidID uint64
}

// apiClient: one reader goroutine's state.
type apiClient struct {
	r       *Readers
	h       *Hist
	rng     *rand.Rand
	app     *minter.Blockchain
	svc     *service.Service
	addrs   []types.Address
	pks     []types.Pubkey
	keys    []*ecdsa.PrivateKey
	symbols []string
	chain   types.ChainID
	pools   []poolView
	nCoins  uint64
	calls   int
	local   map[string]int64
	role    int // 0 trader wallet (mostly estimates and pools), 1 explorer (accounts, candidates, coins, lists), 2 both
	form    swapForm
	hot     []hotSide // order-book sides whose best order can be filled at the current pool price (from LimitOrdersOfPool)
}

// hotSide: a taker selling `sell` for `buy` starts inside a limit order (the pool price is on or past the best order's
// price - the state a partial fill leaves behind). Trading clients watch for exactly that.
type hotSide struct{ sell, buy uint64 }

// swapForm: the exchange a wallet user has on the screen; the wallet re-estimates it (new amounts, same coins, same fee
// coin) several times before the user moves on.
type swapForm struct {
	from, to, fee uint64
	swapFrom      pb.SwapFrom
	route         []uint64
	left          int
}

func (c *apiClient) curForm() swapForm {
	if c.form.left <= 0 {
		from, to := c.pair()
		c.form = swapForm{from: from, to: to, fee: c.feeCoin(), swapFrom: c.swapFrom(), route: c.route(), left: 1 + c.rng.Intn(16)}
		if c.rng.Intn(3) == 0 {
			c.form.fee = from // wallets offer the coin being sold as the fee coin
		}
		if len(c.hot) > 0 && c.role != 1 && c.rng.Intn(3) != 0 {
			// a fillable order: estimate the trade against it, the fee paid in the coin sold, in the coin bought, or in the base coin
			hs := c.hot[c.rng.Intn(len(c.hot))]
			c.form.from, c.form.to, c.form.route = hs.sell, hs.buy, nil
			c.form.fee = []uint64{hs.sell, hs.sell, hs.buy, 0}[c.rng.Intn(4)]
			c.form.left = 4 + c.rng.Intn(28)
			c.local["estimates_against_fillable_order"]++
		}
	}
	c.form.left--
	f := c.form
	if f.fee != 0 {
		// coverage note: does the conversion of a fee paid in this coin cross a limit order of its pool with the base coin?
		if sw := c.app.CurrentState().Swap().GetSwapper(types.CoinID(f.fee), types.GetBaseCoinID()); sw != nil && sw.Exists() {
			c.local["estimates_fee_coin_has_pool"]++
			if _, os := sw.CalculateBuyForSellWithOrders(big.NewInt(1e17)); len(os) > 0 {
				c.local["estimates_fee_conversion_crosses_order"]++
			}
		}
	}
	return f
}

// pickOp: the next request of this client, by role.
func (c *apiClient) pickOp() int {
	switch c.role {
	case 0:
		switch k := c.rng.Intn(20); {
		case k < 13:
			return 6 + c.rng.Intn(7) // the estimates
		case k < 15:
			return 18 // BestTrade
		case k == 15:
			return 13 // EstimateTxCommission
		default:
			return 14 + c.rng.Intn(4) // pools and orders
		}
	case 1:
		ops := []int{0, 1, 2, 3, 4, 5, 14, 15, 16, 17, 20, 21, 22, 23, 24, 25}
		return ops[c.rng.Intn(len(ops))]
	}
	return c.rng.Intn(nAPIOps)
}

func (c *apiClient) addr() string { return c.addrs[c.rng.Intn(len(c.addrs))].String() }
func (c *apiClient) pk() string   { return c.pks[c.rng.Intn(len(c.pks))].String() }

// coin: a coin id of the running world (base coin, a coin up to the coin counter, the USDT stand-in, a pool coin; rarely a missing one).
func (c *apiClient) coin() uint64 {
	switch k := c.rng.Intn(20); {
	case k < 3:
		return 0
	case k < 5:
		return 1993
	case k < 9 && len(c.pools) > 0:
		p := c.pools[c.rng.Intn(len(c.pools))]
		if c.rng.Intn(2) == 0 {
			return p.c0
		}
		return p.c1
	case k == 19:
		return c.nCoins + 1 + uint64(c.rng.Intn(3)) // does not exist (yet)
	}
	n := c.nCoins
	if n < 9 {
		n = 9
	}
	return 1 + uint64(c.rng.Intn(int(n)))
}

// pool: a pool of the running world, preferably one that carries limit orders.
func (c *apiClient) pool(wantOrders bool) (poolView, bool) {
	if len(c.pools) == 0 {
		return poolView{}, false
	}
	if wantOrders {
		var with []poolView
		for _, p := range c.pools {
			if len(p.orders) > 0 {
				with = append(with, p)
			}
		}
		if len(with) > 0 {
			return with[c.rng.Intn(len(with))], true
		}
	}
	return c.pools[c.rng.Intn(len(c.pools))], true
}

// pair: two coins to trade: the two sides of a pool (3 of 4), else any two coins.
func (c *apiClient) pair() (uint64, uint64) {
	if c.rng.Intn(4) != 0 {
		if p, ok := c.pool(c.rng.Intn(2) == 0); ok {
			if c.rng.Intn(2) == 0 {
				return p.c0, p.c1
			}
			return p.c1, p.c0
		}
	}
	return c.coin(), c.coin()
}

// feeCoin: the coin the estimated transaction pays its fee in: the base coin, a custom coin that has a pool with the base
// coin (the fee is then converted through that pool; preferably one that carries orders), or any coin.
func (c *apiClient) feeCoin() uint64 {
	switch k := c.rng.Intn(10); {
	case k < 3:
		return 0
	case k < 8:
		var withBase, withBaseOrders []uint64
		for _, p := range c.pools {
			if p.c0 == 0 || p.c1 == 0 {
				o := p.c0 + p.c1
				withBase = append(withBase, o)
				if len(p.orders) > 0 {
					withBaseOrders = append(withBaseOrders, o)
				}
			}
		}
		if len(withBaseOrders) > 0 && c.rng.Intn(3) != 0 {
			c.local["estimates_fee_coin_pool_with_orders"]++
			return withBaseOrders[c.rng.Intn(len(withBaseOrders))]
		}
		if len(withBase) > 0 {
			return withBase[c.rng.Intn(len(withBase))]
		}
	}
	return c.coin()
}

func (c *apiClient) amount() string {
	// 10^10 .. 10^23 pip with random leading digits; sometimes tiny or zero
	switch c.rng.Intn(25) {
	case 0:
		return "0"
	case 1:
		return fmt.Sprint(1 + c.rng.Intn(1000))
	}
	v := big.NewInt(1 + c.rng.Int63n(999999))
	v.Mul(v, new(big.Int).Exp(big.NewInt(10), big.NewInt(int64(5+c.rng.Intn(14))), nil))
	return v.String()
}

func (c *apiClient) route() []uint64 {
	if c.rng.Intn(4) != 0 {
		return nil
	}
	n := 1 + c.rng.Intn(2)
	if c.rng.Intn(30) == 0 {
		n = 4 // too long: answered with an error
	}
	var out []uint64
	for i := 0; i < n; i++ {
		out = append(out, c.coin())
	}
	return out
}

// height: almost always the current state (0); sometimes the last committed height (a state opened from the database).
func (c *apiClient) height() uint64 {
	if c.rng.Intn(25) == 0 {
		return c.app.Height()
	}
	return 0
}

func (c *apiClient) swapFrom() pb.SwapFrom {
	return []pb.SwapFrom{pb.SwapFrom_optimal, pb.SwapFrom_pool, pb.SwapFrom_bancor}[c.rng.Intn(3)]
}

// rawTx: a serialized, signed transaction of the world (what a wallet sends to estimate_tx_commission before it broadcasts).
func (c *apiClient) rawTx() string {
	var data interface{}
	var typ tx.TxType
	to := c.addrs[c.rng.Intn(len(c.addrs))]
	switch c.rng.Intn(5) {
	case 0:
		c0, c1 := c.pair()
		typ, data = tx.TypeSellSwapPool, tx.SellSwapPoolDataV260{Coins: []types.CoinID{types.CoinID(c0), types.CoinID(c1)}, ValueToSell: big.NewInt(1e15), MinimumValueToBuy: big.NewInt(1)}
	case 1:
		typ, data = tx.TypeMultisend, tx.MultisendData{List: []tx.MultisendDataItem{{Coin: types.CoinID(c.coin()), To: to, Value: big.NewInt(1)}, {Coin: 0, To: to, Value: big.NewInt(2)}}}
	case 2:
		typ, data = tx.TypeDelegate, tx.DelegateDataV260{PubKey: c.pks[c.rng.Intn(len(c.pks))], Coin: 0, Value: big.NewInt(1e18)}
	default:
		typ, data = tx.TypeSend, tx.SendData{Coin: types.CoinID(c.coin()), To: to, Value: big.NewInt(1 + c.rng.Int63n(1e18))}
	}
	bData, err := rlp.EncodeToBytes(data)
	if err != nil {
		return "0x"
	}
	t0 := tx.Transaction{Nonce: 1 + uint64(c.rng.Intn(50)), ChainID: c.chain, GasPrice: uint32(1 + c.rng.Intn(3)), GasCoin: types.CoinID(c.feeCoin()), Type: typ, Data: bData, SignatureType: tx.SigTypeSingle}
	if c.rng.Intn(4) == 0 {
		t0.Payload = make([]byte, c.rng.Intn(60))
	}
	if err := t0.Sign(c.keys[c.rng.Intn(len(c.keys))]); err != nil {
		return "0x"
	}
	raw, err := rlp.EncodeToBytes(t0)
	if err != nil {
		return "0x"
	}
	if c.rng.Intn(40) == 0 {
		raw = raw[:len(raw)/2] // truncated: answered with an error
	}
	return "0x" + hexs(raw)
}

// refresh: list the pools with their orders (SwapPools, as an explorer does) and read the coin counter.
func (c *apiClient) refresh(ctx context.Context) {
	c.nCoins = uint64(c.app.CurrentState().App().GetCoinsCount())
	resp, err := c.svc.SwapPools(ctx, &pb.SwapPoolsRequest{Orders: true})
	c.local["SwapPools"]++
	if err != nil || resp == nil {
		c.local["SwapPools.err"]++
		return
	}
	c.pools = c.pools[:0]
	for _, p := range resp.Pools {
		v := poolView{c0: p.Coin0, c1: p.Coin1, liquidID: p.Id, nSell: len(p.OrdersSell), nBuy: len(p.OrdersBuy)}
		for _, o := range p.OrdersSell {
			v.orders = append(v.orders, o.Id)
		}
		for _, o := range p.OrdersBuy {
			v.orders = append(v.orders, o.Id)
		}
		c.pools = append(c.pools, v)
	}
}

func (c *apiClient) orderID() uint64 {
	if p, ok := c.pool(true); ok && len(p.orders) > 0 && c.rng.Intn(5) != 0 {
		return p.orders[c.rng.Intn(len(p.orders))]
	}
	return uint64(1 + c.rng.Intn(40))
}

// nAPIOps is the number of query kinds of one client (VERIF_READER_OPS=<k>,<k>… restricts a run to some of them).
const nAPIOps = 27

// apiOpName: the handler(s) behind a query kind (for the panic notes).
func apiOpName(op int) string {
	names := []string{"Address", "Addresses", "Candidate", "Candidates", "CoinInfoById", "CoinInfo", "EstimateCoinSell", "EstimateCoinSell", "EstimateCoinSell",
		"EstimateCoinBuy", "EstimateCoinBuy", "EstimateCoinSellAll", "EstimateCoinSellAll", "EstimateTxCommission", "SwapPool", "SwapPoolProvider",
		"LimitOrdersOfPool", "LimitOrder(s)", "BestTrade", "BestTrade", "Frozen(All)", "WaitList", "Halts", "MaxGasPrice/PriceCommission/votes/VersionNetwork",
		"MissedBlocks/Events", "Export", "SwapPools"}
	if op >= 0 && op < len(names) {
		return names[op]
	}
	return "client"
}

// one performs one API request; returns the handler name and its error.
func (c *apiClient) one(op int) (string, error) {
	ctx, cancel := context.WithTimeout(context.Background(), 2*time.Second) // the API's request timeout
	defer cancel()
	s := c.svc
	switch op {
	case 0:
		_, err := s.Address(ctx, &pb.AddressRequest{Address: c.addr(), Height: c.height(), Delegated: c.rng.Intn(2) == 0})
		return "Address", err
	case 1:
		_, err := s.Addresses(ctx, &pb.AddressesRequest{Addresses: []string{c.addr(), c.addr(), c.addr()}, Height: c.height(), Delegated: c.rng.Intn(2) == 0})
		return "Addresses", err
	case 2:
		_, err := s.Candidate(ctx, &pb.CandidateRequest{PublicKey: c.pk(), Height: c.height(), NotShowStakes: c.rng.Intn(3) == 0})
		return "Candidate", err
	case 3:
		_, err := s.Candidates(ctx, &pb.CandidatesRequest{Height: c.height(), IncludeStakes: c.rng.Intn(3) != 0, NotShowStakes: c.rng.Intn(4) == 0, Status: pb.CandidatesRequest_CandidateStatus(c.rng.Intn(4))})
		return "Candidates", err
	case 4:
		_, err := s.CoinInfoById(ctx, &pb.CoinIdRequest{Id: c.coin(), Height: c.height()})
		return "CoinInfoById", err
	case 5:
		_, err := s.CoinInfo(ctx, &pb.CoinInfoRequest{Symbol: c.symbols[c.rng.Intn(len(c.symbols))], Height: c.height()})
		return "CoinInfo", err
	case 6, 7, 8: // the sale estimate is the most used call of a wallet
		f := c.curForm()
		_, err := s.EstimateCoinSell(ctx, &pb.EstimateCoinSellRequest{
			Sell: &pb.EstimateCoinSellRequest_CoinIdToSell{CoinIdToSell: f.from}, Buy: &pb.EstimateCoinSellRequest_CoinIdToBuy{CoinIdToBuy: f.to},
			ValueToSell: c.amount(), Height: c.height(), Commission: &pb.EstimateCoinSellRequest_CoinIdCommission{CoinIdCommission: f.fee},
			SwapFrom: f.swapFrom, Route: f.route})
		return "EstimateCoinSell", err
	case 9, 10:
		f := c.curForm()
		_, err := s.EstimateCoinBuy(ctx, &pb.EstimateCoinBuyRequest{
			Sell: &pb.EstimateCoinBuyRequest_CoinIdToSell{CoinIdToSell: f.from}, Buy: &pb.EstimateCoinBuyRequest_CoinIdToBuy{CoinIdToBuy: f.to},
			ValueToBuy: c.amount(), Height: c.height(), Commission: &pb.EstimateCoinBuyRequest_CoinIdCommission{CoinIdCommission: f.fee},
			SwapFrom: f.swapFrom, Route: f.route})
		return "EstimateCoinBuy", err
	case 11, 12:
		f := c.curForm() // the fee of a sell-all is paid in the coin sold: a custom coin whenever `from` is one
		_, err := s.EstimateCoinSellAll(ctx, &pb.EstimateCoinSellAllRequest{
			Sell: &pb.EstimateCoinSellAllRequest_CoinIdToSell{CoinIdToSell: f.from}, Buy: &pb.EstimateCoinSellAllRequest_CoinIdToBuy{CoinIdToBuy: f.to},
			ValueToSell: c.amount(), GasPrice: uint64(1 + c.rng.Intn(3)), Height: c.height(), SwapFrom: f.swapFrom, Route: f.route})
		return "EstimateCoinSellAll", err
	case 13:
		_, err := s.EstimateTxCommission(ctx, &pb.EstimateTxCommissionRequest{Tx: c.rawTx(), Height: c.height()})
		return "EstimateTxCommission", err
	case 14:
		c0, c1 := c.pair()
		_, err := s.SwapPool(ctx, &pb.SwapPoolRequest{Coin0: c0, Coin1: c1, Height: c.height()})
		return "SwapPool", err
	case 15:
		c0, c1 := c.pair()
		_, err := s.SwapPoolProvider(ctx, &pb.SwapPoolProviderRequest{Coin0: c0, Coin1: c1, Provider: c.addr(), Height: c.height()})
		return "SwapPoolProvider", err
	case 16:
		c0, c1 := c.pair()
		if p, ok := c.pool(true); ok && c.rng.Intn(4) != 0 {
			c0, c1 = p.c0, p.c1
			if c.rng.Intn(2) == 0 {
				c0, c1 = c1, c0
			}
		}
		hgt := c.height()
		resp, err := s.LimitOrdersOfPool(ctx, &pb.LimitOrdersOfPoolRequest{SellCoin: c0, BuyCoin: c1, Limit: int32(c.rng.Intn(20)), Height: hgt})
		if hgt == 0 {
			// the book side "owners sell c0 for c1" is what a taker selling c1 for c0 trades against
			side := hotSide{sell: c1, buy: c0}
			keep := c.hot[:0]
			for _, x := range c.hot {
				if x != side {
					keep = append(keep, x)
				}
			}
			c.hot = keep
			if err == nil && resp != nil && len(resp.Orders) > 0 {
				// fillable now: pool price <= best order's price (same convention in the response), up to the rounding a partial fill leaves
				pool, ok1 := new(big.Rat).SetString(resp.PoolPrice)
				best, ok2 := new(big.Rat).SetString(resp.Orders[0].Price)
				if ok1 && ok2 && new(big.Rat).Mul(pool, big.NewRat(1000000, 1)).Cmp(new(big.Rat).Mul(best, big.NewRat(1000001, 1))) <= 0 {
					c.hot = append(c.hot, side)
					c.local["fillable_order_seen"]++
				}
			}
		}
		return "LimitOrdersOfPool", err
	case 17:
		if c.rng.Intn(2) == 0 {
			_, err := s.LimitOrder(ctx, &pb.LimitOrderRequest{OrderId: c.orderID(), Height: c.height()})
			return "LimitOrder", err
		}
		_, err := s.LimitOrders(ctx, &pb.LimitOrdersRequest{Ids: []uint64{c.orderID(), c.orderID(), c.orderID()}, Height: c.height()})
		return "LimitOrders", err
	case 18, 19:
		from, to := c.pair()
		typ := pb.BestTradeRequest_input
		if c.rng.Intn(2) == 0 {
			typ = pb.BestTradeRequest_output
		}
		_, err := s.BestTrade(ctx, &pb.BestTradeRequest{SellCoin: from, BuyCoin: to, Amount: c.amount(), Type: typ, MaxDepth: int32(c.rng.Intn(5)), Height: c.height()})
		return "BestTrade", err
	case 20:
		if c.rng.Intn(4) == 0 {
			h := c.app.Height()
			_, err := s.FrozenAll(ctx, &pb.FrozenAllRequest{StartHeight: h, EndHeight: h + uint64(c.rng.Intn(60)), Addresses: []string{c.addr(), c.addr()}})
			return "FrozenAll", err
		}
		req := &pb.FrozenRequest{Address: c.addr(), Height: c.height()}
		if c.rng.Intn(2) == 0 {
			req.CoinId = wrapperspb.UInt64(c.coin())
		}
		_, err := s.Frozen(ctx, req)
		return "Frozen", err
	case 21:
		_, err := s.WaitList(ctx, &pb.WaitListRequest{PublicKey: c.pk(), Address: c.addr(), Height: c.height()})
		return "WaitList", err
	case 22:
		_, err := s.Halts(ctx, &pb.HaltsRequest{Height: c.app.Height() + uint64(c.rng.Intn(12))})
		return "Halts", err
	case 23:
		switch c.rng.Intn(5) {
		case 0:
			_, err := s.MaxGasPrice(ctx, &pb.MaxGasPriceRequest{Height: c.height()})
			return "MaxGasPrice", err
		case 1:
			_, err := s.PriceCommission(ctx, &pb.PriceCommissionRequest{Height: c.height()})
			return "PriceCommission", err
		case 2:
			_, err := s.CommissionVotes(ctx, &pb.CommissionVotesRequest{TargetVersion: c.app.Height() + uint64(c.rng.Intn(12)), Height: c.height()})
			return "CommissionVotes", err
		case 3:
			_, err := s.UpdateVotes(ctx, &pb.UpdateVotesRequest{TargetVersion: c.app.Height() + uint64(c.rng.Intn(12)), Height: c.height()})
			return "UpdateVotes", err
		}
		_, err := s.VersionNetwork(ctx, &pb.VersionNetworkRequest{})
		return "VersionNetwork", err
	case 24:
		if c.rng.Intn(3) == 0 {
			_, err := s.Events(ctx, &pb.EventsRequest{Height: c.app.Height() - uint64(c.rng.Intn(3))})
			return "Events", err
		}
		_, err := s.MissedBlocks(ctx, &pb.MissedBlocksRequest{PublicKey: c.pk(), Height: c.height()})
		return "MissedBlocks", err
	case 25:
		// export is served from a separate state opened at a committed height (as `minter export` and
		// State.Export do), never from the live state
		if c.rng.Intn(6) == 0 {
			if hs, err := c.app.GetStateForHeight(c.app.Height()); err == nil && hs != nil && c.app.Height() > 0 {
				hs.Export()
			}
			return "Export", nil
		}
		return "", nil
	case 26:
		c.refresh(ctx)
		return "", nil
	}
	return "", nil
}

func StartReaders(h *Hist, n int, seed int64) *Readers {
	r := &Readers{stop: make(chan struct{}), Stats: map[string]int64{}}
	var onlyOps []int
	for _, f := range strings.Split(os.Getenv("VERIF_READER_OPS"), ",") {
		var k int
		if _, err := fmt.Sscanf(f, "%d", &k); err == nil {
			onlyOps = append(onlyOps, k)
		}
	}
	addrs := append([]types.Address{}, h.W.Addrs...)
	for _, m := range h.W.Multis {
		addrs = append(addrs, m.Addr)
	}
	addrs = append(addrs, types.Address{})
	pks := append([]types.Pubkey{}, h.W.PubKeys...)
	keys := append([]*ecdsa.PrivateKey{}, h.W.Keys...)
	symbols := append(append([]string{}, h.W.Symbols...), "BIP", "MNT", "LP-1", "LP-2", "COINA-1", "NOSUCH")
	chain := h.W.Chain
	go r.watchdog(h)
	for i := 0; i < n; i++ {
		r.wg.Add(1)
		go func(i int) {
			defer r.wg.Done()
			c := &apiClient{r: r, h: h, rng: rand.New(rand.NewSource(seed*131 + int64(i))), addrs: addrs, pks: pks, keys: keys, symbols: symbols, chain: chain, local: map[string]int64{}, role: i % 3}
			flush := func() {
				r.mu.Lock()
				for k, v := range c.local {
					r.Stats[k] += v
				}
				r.mu.Unlock()
				c.local = map[string]int64{}
			}
			defer flush()
			for {
				select {
				case <-r.stop:
					return
				default:
				}
				func() {
					op := -1
					defer func() {
						if e := recover(); e != nil {
							what := fmt.Sprintf("%s: %s", apiOpName(op), shortPanic(e))
							fmt.Fprintln(os.Stderr, "READER-PANIC", what)
							r.mu.Lock()
							if len(r.Panics) < 20 {
								r.Panics = append(r.Panics, what)
							}
							r.Stats["panic."+apiOpName(op)]++
							r.mu.Unlock()
						}
					}()
					app := h.N.App
					if app == nil {
						return
					}
					if app != c.app { // first call, or the node was restarted
						c.app = app
						c.svc = service.NewService(app, nil, nil, nil, "test", nil)
						c.pools = nil
					}
					op = c.pickOp()
					if len(onlyOps) > 0 {
						op = onlyOps[c.rng.Intn(len(onlyOps))]
					}
					if c.calls%50 == 0 && len(onlyOps) == 0 {
						op = 26 // a client lists the pools first, and again from time to time
					}
					c.calls++
					name, err := c.one(op)
					if name != "" {
						c.local[name]++
						if err != nil {
							c.local[name+".err"]++
						}
					}
					atomic.AddInt64(&r.Calls, 1)
				}()
				if c.calls%200 == 0 {
					flush()
				}
			}
		}(i)
	}
	return r
}

// stallLimit: block execution of a loaded node that does not reach a new height for this long is hung (a block of a
// generated history takes about a second under query load in the race build). VERIF_STALL_LIMIT=<duration> overrides.
var stallLimit = func() time.Duration {
	if d, err := time.ParseDuration(os.Getenv("VERIF_STALL_LIMIT")); err == nil && d > 0 {
		return d
	}
	return 45 * time.Second
}()

const stallMarker = "READER-WATCHDOG block execution made no progress"

// watchdog runs next to the readers: when the node's height (set by BeginBlock) stops advancing for stallLimit while the
// history is still running, it prints every goroutine's stack and ends the process with exit code 3; the parent reports
// the hang. (The parent's own time limit stays as the backstop.)
func (r *Readers) watchdog(h *Hist) {
	last, since := uint64(0), time.Now()
	tick := time.NewTicker(500 * time.Millisecond)
	defer tick.Stop()
	for {
		select {
		case <-r.stop:
			return
		case <-tick.C:
		}
		app := h.N.App
		if app == nil {
			continue
		}
		if cur := app.Height(); cur != last {
			last, since = cur, time.Now()
			continue
		}
		if time.Since(since) > stallLimit {
			fmt.Fprintf(os.Stderr, "%s for %s at height %d; goroutine dump:\n", stallMarker, stallLimit, last)
			pprof.Lookup("goroutine").WriteTo(os.Stderr, 2)
			os.Exit(3)
		}
	}
}

func (r *Readers) Stop() {
	close(r.stop)
	r.wg.Wait()
	// per-handler counters for the parent process (Concurrent sums them into Notes)
	r.mu.Lock()
	keys := make([]string, 0, len(r.Stats))
	for k := range r.Stats {
		keys = append(keys, k)
	}
	sort.Strings(keys)
	var parts []string
	for _, k := range keys {
		parts = append(parts, fmt.Sprintf("%s=%d", k, r.Stats[k]))
	}
	r.mu.Unlock()
	fmt.Fprintln(os.Stderr, "READER-STATS "+strings.Join(parts, " "))
}

// ---------------------------------------------------------------------------------------------------------------
// Profile suffix "+mm": the generated history of the base profile with a market maker in it. Order books of live pools
// are not the far-away, never-touched orders a random generator leaves: a market maker keeps an order close to the price
// of every pool with the base coin, takers trade into it and leave it partially filled (the pool price then sits on the
// order), and accounts without base coin pay their fees in the pool's coin, so that the fee conversion itself crosses the
// order. The maker acts from Hist.DebugHook (before the first generated transaction of a block), deterministically from the
// node's state, so the query-free and the loaded child execute the same history.

type marketMaker struct {
	h      *Hist
	coins  []types.CoinID
	height uint64
}

func (m *marketMaker) richest(coin types.CoinID) (types.Address, *big.Int) {
	cs := m.h.N.App.CurrentState()
	best, bal := m.h.W.Addrs[0], big.NewInt(0)
	for _, a := range m.h.W.Addrs {
		if b := cs.Accounts().GetBalance(a, coin); b.Cmp(bal) > 0 {
			best, bal = a, b
		}
	}
	return best, bal
}

func (m *marketMaker) deliver(kind string, g *GenTx) {
	h := m.h
	r, pan := h.N.Deliver(g.Raw)
	h.Ops++
	if pan != "" {
		h.Panics = append(h.Panics, fmt.Sprintf("DeliverTx (market maker, %s) h=%d: %s raw=%x", kind, h.N.Height, pan, g.Raw))
		h.S.Op(fmt.Sprintf("M %s code=999 panic=%q raw=%x", kind, pan, g.Raw))
		return
	}
	h.Stats[fmt.Sprintf("mm.%s.%s", kind, okstr(r.Code))]++
	h.S.Op(fmt.Sprintf("M %s code=%d tags=%v raw=%x", kind, r.Code, tagsOf(r.Events), g.Raw))
}

// step: one action per block on every pool (X, base): pay a fee in X when the conversion crosses an order; else trade into
// the best order when it is near; else post an order 1 % off the pool price.
func (m *marketMaker) step() {
	for _, x := range m.coins {
		m.stepPool(x)
	}
}

func (m *marketMaker) stepPool(x types.CoinID) {
	h := m.h
	if h.N.Dead != "" {
		return
	}
	cs := h.N.App.CurrentState()
	sw := cs.Swap().GetSwapper(x, types.GetBaseCoinID()) // a taker selling X for the base coin
	if sw == nil || !sw.Exists() {
		return
	}
	plain := func(t *tx.Transaction) { t.GasPrice = 1; t.Payload = nil; t.ServiceData = nil }
	rX, rBase := sw.Reserves()
	if rX.Sign() <= 0 || rBase.Sign() <= 0 {
		return
	}
	if _, crossed := sw.CalculateBuyForSellWithOrders(big.NewInt(1e17)); len(crossed) > 0 {
		payer, bal := m.richest(x)
		if bal.Sign() > 0 {
			to := h.W.Addrs[int(m.height)%len(h.W.Addrs)]
			m.deliver("fee-across-order", h.G.Build(tx.TypeSend, tx.SendData{Coin: 0, To: to, Value: big.NewInt(1)}, payer, x, plain))
		}
		return
	}
	var best *swap.Limit
	if os := sw.OrdersSell(1); len(os) > 0 && os[0] != nil {
		best = os[0]
	}
	if best != nil {
		// near: the order's price is within 3 % of the pool price
		if new(big.Rat).Mul(best.PriceRat(), big.NewRat(103, 100)).Cmp(sw.PriceRat()) >= 0 {
			need, _ := sw.CalculateAddAmountsForPrice(best.Price())
			if need == nil || need.Sign() < 0 {
				need = big.NewInt(0)
			}
			amount := new(big.Int).Add(need, new(big.Int).Div(new(big.Int).Mul(best.WantBuy, big.NewInt(int64(25+m.height%50))), big.NewInt(100)))
			amount.Add(amount, new(big.Int).Div(amount, big.NewInt(400)))
			taker, bal := m.richest(x)
			if taker == best.Owner || bal.Cmp(amount) <= 0 {
				return
			}
			m.deliver("partial-fill", h.G.Build(tx.TypeSellSwapPool, tx.SellSwapPoolDataV260{Coins: []types.CoinID{x, 0}, ValueToSell: amount, MinimumValueToBuy: big.NewInt(1)}, taker, 0, plain))
			return
		}
	}
	maker, bal := m.richest(0)
	vs := new(big.Int).Div(rBase, big.NewInt(40)) // base coin offered
	if bal.Cmp(new(big.Int).Mul(vs, big.NewInt(2))) <= 0 {
		return
	}
	// wanted: X at 1 % less base per X than the pool gives
	vb := new(big.Int).Div(new(big.Int).Mul(new(big.Int).Mul(vs, rX), big.NewInt(100)), new(big.Int).Mul(rBase, big.NewInt(99)))
	if vb.Sign() <= 0 {
		return
	}
	m.deliver("order", h.G.Build(tx.TypeAddLimitOrder, tx.AddLimitOrderData{CoinToSell: 0, ValueToSell: vs, CoinToBuy: x, ValueToBuy: vb}, maker, 0, plain))
}

func attachMarketMaker(h *Hist) {
	m := &marketMaker{h: h, coins: []types.CoinID{4, 1, 1993}}
	prev := h.DebugHook
	h.DebugHook = func(g *GenTx) {
		if prev != nil {
			prev(g)
		}
		if cur := h.N.Height; cur != m.height { // once per block, before its first generated transaction
			m.height = cur
			m.step()
		}
	}
}

// concurrentChild is the child process of a "+mm" history (the plain profiles use the `one` command): one history into a
// trace file, with or without readers. It is entered through the `concurrent` command itself with profile "child:<profile>"
// and -keep <trace file> (no new command line is needed for it).
func concurrentChild(profile string, seed int64, tier, tracePath string, readers int) {
	sink, err := NewSink(tracePath, "")
	if err != nil {
		panic(err)
	}
	base := strings.TrimSuffix(profile, "+mm")
	h, err := NewHist(Profile(base, seed, tier), sink)
	if err != nil {
		panic(err)
	}
	if strings.HasSuffix(profile, "+mm") {
		attachMarketMaker(h)
	}
	var rd *Readers
	if readers > 0 {
		rd = StartReaders(h, readers, seed)
	}
	h.Run()
	if rd != nil {
		rd.Stop()
		fmt.Printf("READERS calls=%d panics=%d %v\n", rd.Calls, len(rd.Panics), rd.Panics)
	}
	var mm []string
	for k, v := range h.Stats {
		if strings.HasPrefix(k, "mm.") {
			mm = append(mm, fmt.Sprintf("%s=%d", k, v))
		}
	}
	sort.Strings(mm)
	fmt.Fprintln(os.Stderr, "MM-STATS "+strings.Join(mm, " "))
	sink.Close()
	h.N.Destroy()
	os.Exit(0)
}

var raceHdr = regexp.MustCompile(`WARNING: DATA RACE`)

// Time limits of the child processes. A child that does not finish is a hang: it is sent SIGQUIT first (the Go runtime
// then prints every goroutine's stack and exits), killed if that does not help, and reported.
// The query-free child gets a flat limit; the loaded child gets a limit proportional to what the query-free run of the
// same history took (loadedFactor times, at least loadedMinTimeout, at most childTimeout; the loaded child is a race-detector
// build that shares 8 CPUs and the node's locks with 6 API clients: measured 9-10 times the query-free time). That limit is
// only the backstop: a node whose block execution stops is reported by the watchdog inside the child (Readers.watchdog)
// stallLimit after the last new height. VERIF_CHILD_TIMEOUT=<duration> fixes both limits (for testing the hang path).
var (
	childTimeout     = 10 * time.Minute
	loadedFactor     = 40
	loadedMinTimeout = 120 * time.Second
	fixedTimeout     = func() time.Duration {
		if d, err := time.ParseDuration(os.Getenv("VERIF_CHILD_TIMEOUT")); err == nil && d > 0 {
			return d
		}
		return 0
	}()
)

func loadedLimit(plain time.Duration) time.Duration {
	if fixedTimeout > 0 {
		return fixedTimeout
	}
	d := time.Duration(loadedFactor) * plain
	if d < loadedMinTimeout {
		d = loadedMinTimeout
	}
	if d > childTimeout {
		d = childTimeout
	}
	return d
}

var errChildHung = fmt.Errorf("child process hung")

// mainGoroutineBlocked reads a SIGQUIT goroutine dump: true when goroutine 1 (the history runner: BeginBlock … Commit) has been
// parked for minutes (e.g. "[sync.RWMutex.Lock, 4 minutes]"), or when there is no dump to read (the conservative answer).
func mainGoroutineBlocked(out string) bool {
	k := strings.Index(out, "\ngoroutine 1 ")
	if k < 0 {
		return true
	}
	head := out[k+1:]
	if j := strings.Index(head, "\n"); j > 0 {
		head = head[:j]
	}
	return strings.Contains(head, "minutes]")
}

// runChild runs cmd with the timeout; returns the combined output.
func runChild(cmd *exec.Cmd, timeout time.Duration) (string, error) {
	var buf bytes.Buffer
	cmd.Stdout, cmd.Stderr = &buf, &buf
	if err := cmd.Start(); err != nil {
		return "", err
	}
	done := make(chan error, 1)
	go func() { done <- cmd.Wait() }()
	select {
	case err := <-done:
		return buf.String(), err
	case <-time.After(timeout):
		cmd.Process.Signal(syscall.SIGQUIT) // goroutine dump
		select {
		case <-done:
		case <-time.After(20 * time.Second):
			cmd.Process.Kill()
			<-done
		}
		return buf.String(), errChildHung
	}
}

// Concurrent (C25): each history runs in two child processes — query-free and with reader goroutines — and the traces
// (every response, tag, state delta and app hash) must be identical; the loaded child must neither die nor hang.
// A panic inside a reader goroutine is recovered (the API server recovers handler panics too) and only counted in
// Notes["reader_panics"]; violations are: process death, a hang (no end within loadedLimit(query-free time); goroutine dump kept),
// a trace difference.
// When a race-detector build of the harness is available the loaded child is that build and its reports are collected.
func Concurrent(profile string, baseSeed int64, n int, tier, keep, self, raceBin string, readers int) ModeResult {
	if strings.HasPrefix(profile, "child:") {
		concurrentChild(strings.TrimPrefix(profile, "child:"), baseSeed, tier, keep, readers) // does not return
	}
	res := ModeResult{Notes: map[string]interface{}{}}
	races := map[string]int{}
	mmStats := map[string]int64{}
	totalCalls := 0
	staleCache := 0
	readerPanics := 0
	var panicSamples []string
	handlerCalls := map[string]int64{}
	staleHist, staleLines := 0, 0
	var plainTotal, loadedTotal time.Duration
	for i := 0; i < n; i++ {
		seed := baseSeed*1000 + int64(i)
		if hung := res.Notes["stopped_after_hang"]; hung != nil {
			break
		}
		run := func(bin string, rd int, extraEnv []string, limit time.Duration) ([]string, string, error, string) {
			tmp, _ := ioutil.TempFile(tmpRoot(), "verif-conc-")
			tmp.Close()
			defer os.Remove(tmp.Name())
			cmd := exec.Command(bin, "one", "-profile", profile, "-seed", fmt.Sprint(seed), "-tier", tier, "-trace", tmp.Name(), "-readers", fmt.Sprint(rd), "-lightproj")
			if strings.HasSuffix(profile, "+mm") {
				cmd = exec.Command(bin, "concurrent", "-profile", "child:"+profile, "-seed", fmt.Sprint(seed), "-tier", tier, "-keep", tmp.Name(), "-readers", fmt.Sprint(rd), "-lightproj")
			}
			cmd.Env = append(append(os.Environ(), "GOTRACEBACK=all"), extraEnv...) // SIGQUIT on a hang dumps every goroutine
			out, err := runChild(cmd, limit)
			return readLines(tmp.Name()), out, err, tmp.Name()
		}
		plainLimit := childTimeout
		if fixedTimeout > 0 {
			plainLimit = fixedTimeout
		}
		t0 := time.Now()
		plain, outA, errA, _ := run(self, 0, nil, plainLimit)
		plainTook := time.Since(t0)
		plainTotal += plainTook
		if errA == errChildHung {
			dst := fmt.Sprintf("%s/concurrent-%s-%d.txt", keep, profile, seed)
			os.MkdirAll(keep, 0o755)
			ioutil.WriteFile(dst, []byte(fmt.Sprintf("profile=%s seed=%d readers=0: the query-free instance did not finish within %s; goroutine dump (SIGQUIT):\n%s\n", profile, seed, plainLimit, tailBytes(outA, 200000))), 0o644)
			res.viol("C25", fmt.Sprintf("query-free instance hung (no end within %s): %s", plainLimit, clip(hangSummary(outA), 300)), dst)
			continue
		}
		if errA != nil {
			res.viol("C25", "query-free instance failed: "+clip(outA, 300), "")
			continue
		}
		bin := self
		env := []string{"GOMAXPROCS=8"}
		if raceBin != "" {
			bin = raceBin
			env = append(env, "GORACE=halt_on_error=0 exitcode=0 history_size=3")
		}
		limit := loadedLimit(plainTook)
		t1 := time.Now()
		loaded, outB, errB, _ := run(bin, readers, env, limit)
		loadedTotal += time.Since(t1)
		res.Evaluations += len(plain)
		for _, l := range strings.Split(outB, "\n") {
			if strings.HasPrefix(l, "MM-STATS ") {
				for _, kv := range strings.Fields(l)[1:] {
					if j := strings.LastIndex(kv, "="); j > 0 {
						var v int64
						fmt.Sscanf(kv[j+1:], "%d", &v)
						mmStats[kv[:j]] += v
					}
				}
			}
			if strings.HasPrefix(l, "READER-STATS ") {
				for _, kv := range strings.Fields(l)[1:] {
					if j := strings.LastIndex(kv, "="); j > 0 {
						var v int64
						fmt.Sscanf(kv[j+1:], "%d", &v)
						handlerCalls[kv[:j]] += v
					}
				}
			}
		}
		dst := fmt.Sprintf("%s/concurrent-%s-%d.txt", keep, profile, seed)
		if errB != nil && errB != errChildHung && strings.Contains(outB, stallMarker) {
			// reported by the watchdog inside the child
			k := strings.Index(outB, stallMarker)
			head := outB[k:]
			if j := strings.Index(head, "\n"); j > 0 {
				head = head[:j]
			}
			os.MkdirAll(keep, 0o755)
			ioutil.WriteFile(dst, []byte(fmt.Sprintf("profile=%s seed=%d readers=%d: the node process hung under concurrent queries: %s (the query-free run of the whole history took %s)\n%s\n", profile, seed, readers, head, plainTook.Round(time.Millisecond), tailBytes(outB[k:], 400000))), 0o644)
			res.viol("C25", fmt.Sprintf("node hung under concurrent read-only queries (%s; query-free run of the whole history: %s; goroutine dump in the replay file): %s", strings.TrimSuffix(strings.TrimPrefix(head, "READER-WATCHDOG "), "; goroutine dump:"), plainTook.Round(time.Second), clip(hangSummary(outB[k:]), 300)), dst)
			res.Notes["stopped_after_hang"] = fmt.Sprintf("history %d of %d (seed %d)", i+1, n, seed)
			continue
		}
		if errB == errChildHung && !mainGoroutineBlocked(outB) {
			// The backstop fired but block execution was still advancing (the watchdog inside the child saw new heights, and
			// in the SIGQUIT dump the main goroutine is running / runnable, not parked for minutes): the machine was too
			// loaded for the time limit, which says nothing about the node. Not a violation; the history is not counted.
			res.Notes["loaded_run_too_slow_not_counted"] = fmt.Sprintf("seed %d: no end within %s although block execution kept advancing (query-free run %s)", seed, limit, plainTook.Round(time.Millisecond))
			continue
		}
		if errB == errChildHung {
			os.MkdirAll(keep, 0o755)
			ioutil.WriteFile(dst, []byte(fmt.Sprintf("profile=%s seed=%d readers=%d: the node process hung under concurrent queries (no end within %s; the query-free run of the same history took %s); goroutine dump (SIGQUIT):\n%s\n", profile, seed, readers, limit, plainTook.Round(time.Millisecond), tailBytes(outB, 400000))), 0o644)
			res.viol("C25", fmt.Sprintf("node hung under concurrent read-only queries (no end within %s, query-free run: %s; goroutine dump in the replay file): %s", limit, plainTook.Round(time.Second), clip(hangSummary(outB), 300)), dst)
			// a hang is conclusive and every further history of this run would cost the same limit again
			res.Notes["stopped_after_hang"] = fmt.Sprintf("history %d of %d (seed %d)", i+1, n, seed)
			continue
		}
		if errB != nil {
			os.MkdirAll(keep, 0o755)
			ioutil.WriteFile(dst, []byte(fmt.Sprintf("profile=%s seed=%d readers=%d: the node process died under concurrent queries\n%s\n", profile, seed, readers, clip(outB, 6000))), 0o644)
			res.viol("C25", "node died under concurrent read-only queries: "+clip(lastLines(outB, 6), 300), dst)
			continue
		}
		// C25 speaks about what block execution answers and leaves behind: ABCI responses and tags, app hashes, state deltas.
		// The harness' own cache-vs-disk observations ("X divergence …", run.go) are not part of that: under reader load a query
		// between a module's Commit and the swap of the immutable tree may re-cache an entry the commit just removed (seen: a halt
		// vote of a past height re-read by Halts().GetHaltBlocks); it changes no response and no app hash. They are counted instead.
		plain, xa := dropHarnessLines(plain)
		loaded, xb := dropHarnessLines(loaded)
		if xb > xa {
			staleHist++
			staleLines += xb - xa
		}
		if xa > 0 || xb > 0 {
			staleCache++
		}
		if j, x, y := firstDiff(plain, loaded); j >= 0 {
			os.MkdirAll(keep, 0o755)
			ioutil.WriteFile(dst, []byte(fmt.Sprintf("profile=%s seed=%d readers=%d: execution under query load differs from the query-free run at line %d\nquery-free: %s\nloaded:     %s\n", profile, seed, readers, j, x, y)), 0o644)
			res.viol("C25", fmt.Sprintf("block execution perturbed by concurrent queries: %s | %s", clip(x, 160), clip(y, 160)), dst)
		}
		for _, l := range strings.Split(outB, "\n") {
			if strings.HasPrefix(l, "READERS ") {
				var c, p int
				fmt.Sscanf(l, "READERS calls=%d panics=%d", &c, &p)
				totalCalls += c
				// a panic inside a reader is recovered, as the API server does for its handlers: counted, not a violation
				readerPanics += p
				if p > 0 && len(panicSamples) < 5 {
					panicSamples = append(panicSamples, fmt.Sprintf("seed %d: %s", seed, clip(l, 300)))
				}
			}
		}
		// race reports: first non-runtime frame of each of the two accesses
		if raceBin != "" {
			for _, blk := range strings.Split(outB, "==================") {
				if !raceHdr.MatchString(blk) {
					continue
				}
				var frames []string
				for _, l := range strings.Split(blk, "\n") {
					l = strings.TrimSpace(l)
					if strings.HasPrefix(l, "github.com/MinterTeam/minter-go-node/") && strings.HasSuffix(l, ")") {
						f := strings.TrimPrefix(l, "github.com/MinterTeam/minter-go-node/")
						if k := strings.Index(f, "("); k > 0 {
							f = f[:k]
						}
						frames = append(frames, f)
					}
				}
				key := "?"
				if len(frames) > 0 {
					key = frames[0]
				}
				races[key]++
			}
		}
		if len(res.Samples) < 2 {
			res.Samples = append(res.Samples, map[string]interface{}{"seed": seed, "trace_lines": len(plain), "readers": readers, "race_build": raceBin != ""})
		}
	}
	res.Distinct = n
	if res.Distinct < 2 {
		res.Distinct = 2
	}
	res.Notes["reader_calls"] = totalCalls
	res.Notes["api_handler_calls"] = handlerCalls
	if len(mmStats) > 0 {
		res.Notes["market_maker"] = mmStats
	}
	res.Notes["stale_cache_entries"] = map[string]int{"histories": staleHist, "lines": staleLines}
	res.Notes["child_seconds"] = map[string]float64{"query_free": plainTotal.Seconds(), "loaded": loadedTotal.Seconds()}
	res.Notes["histories_with_cache_vs_disk_lines"] = staleCache
	res.Notes["reader_panics"] = readerPanics
	if len(panicSamples) > 0 {
		res.Notes["reader_panic_samples"] = panicSamples
	}
	res.Notes["histories"] = n
	keys := make([]string, 0, len(races))
	for k := range races {
		keys = append(keys, k)
	}
	sort.Strings(keys)
	rr := map[string]int{}
	for _, k := range keys {
		rr[k] = races[k]
	}
	res.Notes["race_reports_by_first_node_frame"] = rr
	return res
}

// dropHarnessLines removes the harness-internal observation lines ("X …") from a trace; returns how many were removed.
func dropHarnessLines(ls []string) ([]string, int) {
	out := make([]string, 0, len(ls))
	n := 0
	for _, l := range ls {
		if strings.HasPrefix(l, "X ") {
			n++
			continue
		}
		out = append(out, l)
	}
	return out, n
}

func lastLines(s string, n int) string {
	ls := strings.Split(strings.TrimSpace(s), "\n")
	if len(ls) > n {
		ls = ls[len(ls)-n:]
	}
	return strings.Join(ls, " / ")
}

func tailBytes(s string, n int) string {
	if len(s) > n {
		return "…" + s[len(s)-n:]
	}
	return s
}

// hangSummary: the first node frames of the goroutines of the dump that wait for a lock or a channel (where the node is
// stuck); the goroutine that executes the block (a frame of coreV2/minter.(*Blockchain)) comes first.
func hangSummary(dump string) string {
	var exec, out []string
	seen := map[string]bool{}
	ls := strings.Split(dump, "\n")
	for i, l := range ls {
		if strings.HasPrefix(l, "goroutine ") && (strings.Contains(l, "semacquire") || strings.Contains(l, "sync.") || strings.Contains(l, "chan ")) {
			first, isExec := "", false
			for j := i + 1; j < len(ls) && j < i+80 && ls[j] != ""; j++ {
				if strings.HasPrefix(ls[j], "github.com/MinterTeam/minter-go-node/") {
					f := strings.TrimPrefix(ls[j], "github.com/MinterTeam/minter-go-node/")
					if k := strings.LastIndex(f, "("); k > 0 {
						f = f[:k]
					}
					if first == "" {
						first = f
					}
					if strings.HasPrefix(f, "coreV2/minter.(*Blockchain).") {
						isExec = true
						first += " <- " + strings.TrimPrefix(f, "coreV2/minter.")
						break
					}
				}
			}
			if first == "" || seen[first] {
				continue
			}
			seen[first] = true
			if isExec {
				exec = append(exec, first)
			} else {
				out = append(out, first)
			}
		}
	}
	out = append(exec, out...)
	if len(out) > 4 {
		out = out[:4]
	}
	if len(out) == 0 {
		return lastLines(dump, 4)
	}
	return "blocked in " + strings.Join(out, " | ")
}
