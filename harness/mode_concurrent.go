package main

import (
	"bytes"
	"context"
	"fmt"
	"io/ioutil"
	"math/big"
	"math/rand"
	"os"
	"os/exec"
	"regexp"
	"sort"
	"strings"
	"sync"
	"sync/atomic"
	"syscall"
	"time"

	"github.com/MinterTeam/minter-go-node/coreV2/types"
)

// Readers (C25): goroutines that behave like the read-only API handlers: they call getters on CurrentState()
// (the API takes no state-wide lock) while the history executes blocks on the same node.
type Readers struct {
	stop   chan struct{}
	wg     sync.WaitGroup
	Calls  int64
	mu     sync.Mutex
	Panics []string
}

func StartReaders(h *Hist, n int, seed int64) *Readers {
	r := &Readers{stop: make(chan struct{})}
	var onlyOps []int
	for _, f := range strings.Split(os.Getenv("VERIF_READER_OPS"), ",") {
		var k int
		if _, err := fmt.Sscanf(f, "%d", &k); err == nil {
			onlyOps = append(onlyOps, k)
		}
	}
	addrs := append([]types.Address{}, h.W.Addrs...)
	pks := append([]types.Pubkey{}, h.W.PubKeys...)
	for i := 0; i < n; i++ {
		r.wg.Add(1)
		go func(i int) {
			defer r.wg.Done()
			rng := rand.New(rand.NewSource(seed*131 + int64(i)))
			for {
				select {
				case <-r.stop:
					return
				default:
				}
				func() {
					defer func() {
						if e := recover(); e != nil {
							fmt.Fprintln(os.Stderr, "READER-PANIC", shortPanic(e))
							r.mu.Lock()
							if len(r.Panics) < 20 {
								r.Panics = append(r.Panics, shortPanic(e))
							}
							r.mu.Unlock()
						}
					}()
					app := h.N.App
					if app == nil {
						return
					}
					cs := app.CurrentState()
					a := addrs[rng.Intn(len(addrs))]
					pk := pks[rng.Intn(len(pks))]
					c0 := types.CoinID(rng.Intn(8))
					c1 := types.CoinID(rng.Intn(8))
					op := rng.Intn(16)
					if len(onlyOps) > 0 {
						op = onlyOps[rng.Intn(len(onlyOps))]
					}
					switch op {
					case 0:
						cs.Accounts().GetBalances(a)
						cs.Accounts().GetNonce(a)
					case 1:
						cs.Accounts().GetBalance(a, c0)
					case 2:
						for _, c := range cs.Candidates().GetCandidates() {
							_ = c.GetTotalBipStake()
							cs.Candidates().GetStakes(c.PubKey)
						}
					case 3:
						if c := cs.Candidates().GetCandidate(pk); c != nil {
							cs.Candidates().GetTotalStake(pk)
							cs.Candidates().GetStakeValueOfAddress(pk, a, c0)
						}
					case 4:
						if co := cs.Coins().GetCoin(c0); co != nil {
							_ = co.Volume()
							_ = co.Reserve()
						}
					case 5:
						cs.Swap().SwapPool(c0, c1)
					case 6:
						if c0 != c1 && cs.Swap().SwapPoolExist(c0, c1) {
							sw := cs.Swap().GetSwapper(c0, c1)
							sw.Reserves()
							sw.CalculateBuyForSellWithOrders(big.NewInt(int64(1e12) + rng.Int63n(1e15)))
							sw.OrdersSell(5)
						}
					case 7:
						ctx, cancel := context.WithTimeout(context.Background(), 200*time.Millisecond)
						cs.Swap().GetBestTradeExactIn(ctx, uint64(c1), uint64(c0), big.NewInt(1e15), 3)
						cancel()
					case 8:
						ctx, cancel := context.WithTimeout(context.Background(), 200*time.Millisecond)
						cs.Swap().GetBestTradeExactOut(ctx, uint64(c0), uint64(c1), big.NewInt(1e15), 3)
						cancel()
					case 9:
						cs.Validators().GetValidators()
					case 10:
						cs.FrozenFunds().GetFrozenFunds(app.Height() + uint64(rng.Intn(600)))
					case 11:
						cs.WaitList().GetByAddress(a)
					case 12:
						cs.App().GetMaxGas()
						cs.App().GetTotalSlashed()
						cs.Commission().GetCommissions()
					case 13:
						// export is served from a separate state opened at a committed height (as `minter export` and
						// State.Export do), never from the live state
						if rng.Intn(6) == 0 {
							if hs, err := app.GetStateForHeight(app.Height()); err == nil && hs != nil && app.Height() > 0 {
								hs.Export()
							}
						}
					case 14:
						cs.Candidates().IsDelegatorStakeSufficient(a, pk, c0, big.NewInt(1e18))
						cs.Candidates().IsCandidateJailed(pk, app.Height())
					case 15:
						cs.Halts().IsHaltExists(app.Height(), pk)
					}
					atomic.AddInt64(&r.Calls, 1)
				}()
			}
		}(i)
	}
	return r
}

func (r *Readers) Stop() {
	close(r.stop)
	r.wg.Wait()
}

var raceHdr = regexp.MustCompile(`WARNING: DATA RACE`)

// childTimeout bounds one child process (one history). A child that does not finish is a hang: it is sent SIGQUIT first
// (the Go runtime then prints every goroutine's stack and exits), killed if that does not help, and reported.
var childTimeout = func() time.Duration {
	if d, err := time.ParseDuration(os.Getenv("VERIF_CHILD_TIMEOUT")); err == nil && d > 0 {
		return d // for testing the hang path
	}
	return 10 * time.Minute
}()

var errChildHung = fmt.Errorf("child process hung")

// runChild runs cmd with the timeout; returns the combined output.
func runChild(cmd *exec.Cmd, timeout time.Duration) (string, error) {
	var buf bytes.Buffer
	cmd.Stdout, cmd.Stderr = &buf, &buf
	if err := cmd.Start(); err != nil {
		return "", err
	}
	done := make(chan error, 1)
	go func() { done <- cmd.Wait() }()
	select {
	case err := <-done:
		return buf.String(), err
	case <-time.After(timeout):
		cmd.Process.Signal(syscall.SIGQUIT) // goroutine dump
		select {
		case <-done:
		case <-time.After(20 * time.Second):
			cmd.Process.Kill()
			<-done
		}
		return buf.String(), errChildHung
	}
}

// Concurrent (C25): each history runs in two child processes — query-free and with reader goroutines — and the traces
// (every response, tag, state delta and app hash) must be identical; the loaded child must neither die nor hang.
// A panic inside a reader goroutine is recovered (the API server recovers handler panics too) and only counted in
// Notes["reader_panics"]; violations are: process death, a hang (no end within childTimeout; goroutine dump kept), a trace difference.
// When a race-detector build of the harness is available the loaded child is that build and its reports are collected.
func Concurrent(profile string, baseSeed int64, n int, tier, keep, self, raceBin string, readers int) ModeResult {
	res := ModeResult{Notes: map[string]interface{}{}}
	races := map[string]int{}
	totalCalls := 0
	staleCache := 0
	readerPanics := 0
	var panicSamples []string
	for i := 0; i < n; i++ {
		seed := baseSeed*1000 + int64(i)
		run := func(bin string, rd int, extraEnv []string) ([]string, string, error, string) {
			tmp, _ := ioutil.TempFile(tmpRoot(), "verif-conc-")
			tmp.Close()
			defer os.Remove(tmp.Name())
			cmd := exec.Command(bin, "one", "-profile", profile, "-seed", fmt.Sprint(seed), "-tier", tier, "-trace", tmp.Name(), "-readers", fmt.Sprint(rd), "-lightproj")
			cmd.Env = append(append(os.Environ(), "GOTRACEBACK=all"), extraEnv...) // SIGQUIT on a hang dumps every goroutine
			out, err := runChild(cmd, childTimeout)
			return readLines(tmp.Name()), out, err, tmp.Name()
		}
		plain, outA, errA, _ := run(self, 0, nil)
		if errA == errChildHung {
			dst := fmt.Sprintf("%s/concurrent-%s-%d.txt", keep, profile, seed)
			os.MkdirAll(keep, 0o755)
			ioutil.WriteFile(dst, []byte(fmt.Sprintf("profile=%s seed=%d readers=0: the query-free instance did not finish within %s; goroutine dump (SIGQUIT):\n%s\n", profile, seed, childTimeout, tailBytes(outA, 200000))), 0o644)
			res.viol("C25", fmt.Sprintf("query-free instance hung (no end within %s): %s", childTimeout, clip(hangSummary(outA), 300)), dst)
			continue
		}
		if errA != nil {
			res.viol("C25", "query-free instance failed: "+clip(outA, 300), "")
			continue
		}
		bin := self
		env := []string{"GOMAXPROCS=8"}
		if raceBin != "" {
			bin = raceBin
			env = append(env, "GORACE=halt_on_error=0 exitcode=0 history_size=3")
		}
		loaded, outB, errB, _ := run(bin, readers, env)
		res.Evaluations += len(plain)
		dst := fmt.Sprintf("%s/concurrent-%s-%d.txt", keep, profile, seed)
		if errB == errChildHung {
			os.MkdirAll(keep, 0o755)
			ioutil.WriteFile(dst, []byte(fmt.Sprintf("profile=%s seed=%d readers=%d: the node process hung under concurrent queries (no end within %s); goroutine dump (SIGQUIT):\n%s\n", profile, seed, readers, childTimeout, tailBytes(outB, 400000))), 0o644)
			res.viol("C25", fmt.Sprintf("node hung under concurrent read-only queries (no end within %s; goroutine dump in the replay file): %s", childTimeout, clip(hangSummary(outB), 300)), dst)
			continue
		}
		if errB != nil {
			os.MkdirAll(keep, 0o755)
			ioutil.WriteFile(dst, []byte(fmt.Sprintf("profile=%s seed=%d readers=%d: the node process died under concurrent queries\n%s\n", profile, seed, readers, clip(outB, 6000))), 0o644)
			res.viol("C25", "node died under concurrent read-only queries: "+clip(lastLines(outB, 6), 300), dst)
			continue
		}
		// compare what the property speaks about (responses, tags, state deltas, app hashes); the harness-internal cache-vs-disk
		// observation lines ("X divergence …") are not part of it: a query between a module's Commit and the tree swap may
		// re-cache an entry of a past height (seen with halt votes), which changes no response and no app hash
		noX := func(ls []string) []string {
			var out []string
			for _, l := range ls {
				if !strings.HasPrefix(l, "X ") {
					out = append(out, l)
				}
			}
			return out
		}
		if len(noX(loaded)) != len(loaded) || len(noX(plain)) != len(plain) {
			staleCache++
		}
		if j, x, y := firstDiff(noX(plain), noX(loaded)); j >= 0 {
			os.MkdirAll(keep, 0o755)
			ioutil.WriteFile(dst, []byte(fmt.Sprintf("profile=%s seed=%d readers=%d: execution under query load differs from the query-free run at line %d\nquery-free: %s\nloaded:     %s\n", profile, seed, readers, j, x, y)), 0o644)
			res.viol("C25", fmt.Sprintf("block execution perturbed by concurrent queries: %s | %s", clip(x, 160), clip(y, 160)), dst)
		}
		for _, l := range strings.Split(outB, "\n") {
			if strings.HasPrefix(l, "READERS ") {
				var c, p int
				fmt.Sscanf(l, "READERS calls=%d panics=%d", &c, &p)
				totalCalls += c
				// a panic inside a reader is recovered, as the API server does for its handlers: counted, not a violation
				readerPanics += p
				if p > 0 && len(panicSamples) < 5 {
					panicSamples = append(panicSamples, fmt.Sprintf("seed %d: %s", seed, clip(l, 300)))
				}
			}
		}
		// race reports: first non-runtime frame of each of the two accesses
		if raceBin != "" {
			for _, blk := range strings.Split(outB, "==================") {
				if !raceHdr.MatchString(blk) {
					continue
				}
				var frames []string
				for _, l := range strings.Split(blk, "\n") {
					l = strings.TrimSpace(l)
					if strings.HasPrefix(l, "github.com/MinterTeam/minter-go-node/") && strings.HasSuffix(l, ")") {
						f := strings.TrimPrefix(l, "github.com/MinterTeam/minter-go-node/")
						if k := strings.Index(f, "("); k > 0 {
							f = f[:k]
						}
						frames = append(frames, f)
					}
				}
				key := "?"
				if len(frames) > 0 {
					key = frames[0]
				}
				races[key]++
			}
		}
		if len(res.Samples) < 2 {
			res.Samples = append(res.Samples, map[string]interface{}{"seed": seed, "trace_lines": len(plain), "readers": readers, "race_build": raceBin != ""})
		}
	}
	res.Distinct = n
	if res.Distinct < 2 {
		res.Distinct = 2
	}
	res.Notes["reader_calls"] = totalCalls
	res.Notes["histories_with_cache_vs_disk_lines"] = staleCache
	res.Notes["reader_panics"] = readerPanics
	if len(panicSamples) > 0 {
		res.Notes["reader_panic_samples"] = panicSamples
	}
	res.Notes["histories"] = n
	keys := make([]string, 0, len(races))
	for k := range races {
		keys = append(keys, k)
	}
	sort.Strings(keys)
	rr := map[string]int{}
	for _, k := range keys {
		rr[k] = races[k]
	}
	res.Notes["race_reports_by_first_node_frame"] = rr
	return res
}

func lastLines(s string, n int) string {
	ls := strings.Split(strings.TrimSpace(s), "\n")
	if len(ls) > n {
		ls = ls[len(ls)-n:]
	}
	return strings.Join(ls, " / ")
}

func tailBytes(s string, n int) string {
	if len(s) > n {
		return "…" + s[len(s)-n:]
	}
	return s
}

// hangSummary: the first node frames of the goroutine dump that mention a lock wait (where the node is stuck).
func hangSummary(dump string) string {
	var out []string
	ls := strings.Split(dump, "\n")
	for i, l := range ls {
		if strings.HasPrefix(l, "goroutine ") && (strings.Contains(l, "semacquire") || strings.Contains(l, "sync.") || strings.Contains(l, "chan ")) {
			for j := i + 1; j < len(ls) && j < i+40 && ls[j] != ""; j++ {
				if strings.HasPrefix(ls[j], "github.com/MinterTeam/minter-go-node/") {
					f := strings.TrimPrefix(ls[j], "github.com/MinterTeam/minter-go-node/")
					if k := strings.Index(f, "("); k > 0 {
						f = f[:k]
					}
					out = append(out, f)
					break
				}
			}
		}
		if len(out) >= 4 {
			break
		}
	}
	if len(out) == 0 {
		return lastLines(dump, 4)
	}
	return "blocked in " + strings.Join(out, " | ")
}
