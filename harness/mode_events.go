package main

// C24 — events are stored and reloaded faithfully.
//
// EventsMode drives the REAL events store (events.NewEventsStore) on a tm-db MemDB and on goleveldb (temp dir under tmpRoot())
// with generated op sequences: batches of all twelve event kinds committed at increasing heights, restarts in between
// (a new store object on the same DB; goleveldb is really closed and reopened), loads of the current and of earlier heights
// after every step.
//   * direct monitor: every loaded batch is compared event by event (every field) with what was committed for that height;
//     a difference on a well-formed sequence is a C24 violation, the op sequence is the replay file;
//   * model tie: the same op sequence goes to the Lean driver as one `Q evstore <ops> = <rendered loads>` line
//     (`evstoreh` = digest for long results), so the Lean model (MinterModel/Events.lean, the one the C24 theorems are about)
//     has to predict the very same loads, including panics and the behaviour at the uint16 id width.
//
// Encoding of <ops> (documented identically in MinterModel/Events.lean): ops joined by `;`, no spaces
//   C<h>:<ev>|<ev>|…  commit (C<h>: = empty batch)     L<h>  load      R  restart
//   events, fields joined by `,` (addresses 40 hex, pubkeys 64 hex, amounts/coins/ids decimal, strings hex of their bytes, `-` if empty)
//   rw,<role>,<addr>,<amount>,<pk>,<forCoin>  sl,<addr>,<amount>,<coin>,<pk>  jl,<pk>,<until>  ub,<addr>,<amount>,<coin>,<pk|->
//   ul,<addr>,<amount>,<coin>  kk,<addr>,<amount>,<coin>,<pk>  mv,<addr>,<amount>,<coin>,<from>,<to>  oe,<id>,<addr>,<coin>,<amount>
//   rc,<pk>  un,<version>  uc,<coin>,<s1>,…,<s48>  br,<value>,<locked>
// result: one item per L op joined by `;`: <h>=nil | <h>=panic | <h>=<ev>|… | <h>=- ; a panicking commit appends `panic` and ends the sequence.

import (
	"encoding/hex"
	"fmt"
	"hash/fnv"
	"io/ioutil"
	"math/big"
	"math/rand"
	"os"
	"reflect"
	"strconv"
	"strings"

	"github.com/MinterTeam/minter-go-node/coreV2/events"
	"github.com/MinterTeam/minter-go-node/coreV2/types"
	db "github.com/tendermint/tm-db"
)

type evOp struct {
	kind  byte // 'C', 'L', 'R'
	h     uint32
	batch []events.Event
}

func strTok(s string) string {
	if s == "" {
		return "-"
	}
	return hex.EncodeToString([]byte(s))
}

func tokStr(t string) string {
	if t == "-" {
		return ""
	}
	b, _ := hex.DecodeString(t)
	return string(b)
}

func pkTok(p types.Pubkey) string  { return hex.EncodeToString(p[:]) }
func adTok(a types.Address) string { return hex.EncodeToString(a[:]) }
func u64s(v uint64) string         { return strconv.FormatUint(v, 10) }
func tokPk(t string) types.Pubkey  { b, _ := hex.DecodeString(t); return types.BytesToPubkey(b) }
func tokAd(t string) types.Address { b, _ := hex.DecodeString(t); return types.BytesToAddress(b) }
func tokU64(t string) uint64       { v, _ := strconv.ParseUint(t, 10, 64); return v }

// evToken renders one event (committed or loaded) with every field it has.
func evToken(e events.Event) string {
	switch v := e.(type) {
	case *events.RewardEvent:
		return "rw," + v.Role + "," + adTok(v.Address) + "," + v.Amount + "," + pkTok(v.ValidatorPubKey) + "," + u64s(v.ForCoin)
	case *events.SlashEvent:
		return "sl," + adTok(v.Address) + "," + v.Amount + "," + u64s(v.Coin) + "," + pkTok(v.ValidatorPubKey)
	case *events.JailEvent:
		return "jl," + pkTok(v.ValidatorPubKey) + "," + u64s(v.JailedUntil)
	case *events.UnbondEvent:
		pk := "-"
		if v.ValidatorPubKey != nil {
			pk = pkTok(*v.ValidatorPubKey)
		}
		return "ub," + adTok(v.Address) + "," + v.Amount + "," + u64s(v.Coin) + "," + pk
	case *events.UnlockEvent:
		return "ul," + adTok(v.Address) + "," + v.Amount + "," + u64s(v.Coin)
	case *events.StakeKickEvent:
		return "kk," + adTok(v.Address) + "," + v.Amount + "," + u64s(v.Coin) + "," + pkTok(v.ValidatorPubKey)
	case *events.StakeMoveEvent:
		return "mv," + adTok(v.Address) + "," + v.Amount + "," + u64s(v.Coin) + "," + pkTok(v.CandidatePubKey) + "," + pkTok(v.ToCandidatePubKey)
	case *events.OrderExpiredEvent:
		return "oe," + u64s(v.ID) + "," + adTok(v.Address) + "," + u64s(v.Coin) + "," + v.Amount
	case *events.RemoveCandidateEvent:
		return "rc," + pkTok(v.CandidatePubKey)
	case *events.UpdateNetworkEvent:
		return "un," + strTok(v.Version)
	case *events.UpdatedBlockRewardEvent:
		return "br," + strTok(v.Value) + "," + strTok(v.ValueLockedStakeRewards)
	case *events.UpdateCommissionsEvent:
		rv := reflect.ValueOf(v).Elem()
		parts := []string{"uc", u64s(v.Coin)}
		for i := 0; i < rv.NumField(); i++ {
			if rv.Field(i).Kind() == reflect.String {
				parts = append(parts, strTok(rv.Field(i).String()))
			}
		}
		return strings.Join(parts, ",")
	}
	return fmt.Sprintf("unknown-%T", e)
}

func tokenEv(t string) (events.Event, error) {
	f := strings.Split(t, ",")
	bad := fmt.Errorf("bad event token %q", t)
	switch f[0] {
	case "rw":
		if len(f) != 6 {
			return nil, bad
		}
		return &events.RewardEvent{Role: f[1], Address: tokAd(f[2]), Amount: f[3], ValidatorPubKey: tokPk(f[4]), ForCoin: tokU64(f[5])}, nil
	case "sl":
		if len(f) != 5 {
			return nil, bad
		}
		return &events.SlashEvent{Address: tokAd(f[1]), Amount: f[2], Coin: tokU64(f[3]), ValidatorPubKey: tokPk(f[4])}, nil
	case "jl":
		if len(f) != 3 {
			return nil, bad
		}
		return &events.JailEvent{ValidatorPubKey: tokPk(f[1]), JailedUntil: tokU64(f[2])}, nil
	case "ub":
		if len(f) != 5 {
			return nil, bad
		}
		e := &events.UnbondEvent{Address: tokAd(f[1]), Amount: f[2], Coin: tokU64(f[3])}
		if f[4] != "-" {
			pk := tokPk(f[4])
			e.ValidatorPubKey = &pk
		}
		return e, nil
	case "ul":
		if len(f) != 4 {
			return nil, bad
		}
		return &events.UnlockEvent{Address: tokAd(f[1]), Amount: f[2], Coin: tokU64(f[3])}, nil
	case "kk":
		if len(f) != 5 {
			return nil, bad
		}
		return &events.StakeKickEvent{Address: tokAd(f[1]), Amount: f[2], Coin: tokU64(f[3]), ValidatorPubKey: tokPk(f[4])}, nil
	case "mv":
		if len(f) != 6 {
			return nil, bad
		}
		return &events.StakeMoveEvent{Address: tokAd(f[1]), Amount: f[2], Coin: tokU64(f[3]), CandidatePubKey: tokPk(f[4]), ToCandidatePubKey: tokPk(f[5])}, nil
	case "oe":
		if len(f) != 5 {
			return nil, bad
		}
		return &events.OrderExpiredEvent{ID: tokU64(f[1]), Address: tokAd(f[2]), Coin: tokU64(f[3]), Amount: f[4]}, nil
	case "rc":
		if len(f) != 2 {
			return nil, bad
		}
		return &events.RemoveCandidateEvent{CandidatePubKey: tokPk(f[1])}, nil
	case "un":
		if len(f) != 2 {
			return nil, bad
		}
		return &events.UpdateNetworkEvent{Version: tokStr(f[1])}, nil
	case "br":
		if len(f) != 3 {
			return nil, bad
		}
		return &events.UpdatedBlockRewardEvent{Value: tokStr(f[1]), ValueLockedStakeRewards: tokStr(f[2])}, nil
	case "uc":
		e := &events.UpdateCommissionsEvent{}
		rv := reflect.ValueOf(e).Elem()
		if len(f) < 2 {
			return nil, bad
		}
		e.Coin = tokU64(f[1])
		j := 2
		for i := 0; i < rv.NumField(); i++ {
			if rv.Field(i).Kind() == reflect.String {
				if j >= len(f) {
					return nil, bad
				}
				rv.Field(i).SetString(tokStr(f[j]))
				j++
			}
		}
		if j != len(f) {
			return nil, bad
		}
		return e, nil
	}
	return nil, bad
}

func batchToken(b []events.Event) string {
	ts := make([]string, len(b))
	for i, e := range b {
		ts[i] = evToken(e)
	}
	return strings.Join(ts, "|")
}

func opsToken(ops []evOp) string {
	ts := make([]string, len(ops))
	for i, o := range ops {
		switch o.kind {
		case 'C':
			ts[i] = fmt.Sprintf("C%d:%s", o.h, batchToken(o.batch))
		case 'L':
			ts[i] = fmt.Sprintf("L%d", o.h)
		default:
			ts[i] = "R"
		}
	}
	return strings.Join(ts, ";")
}

func parseOpsToken(s string) ([]evOp, error) {
	var ops []evOp
	for _, t := range strings.Split(s, ";") {
		switch {
		case t == "R":
			ops = append(ops, evOp{kind: 'R'})
		case strings.HasPrefix(t, "L"):
			ops = append(ops, evOp{kind: 'L', h: uint32(tokU64(t[1:]))})
		case strings.HasPrefix(t, "C"):
			i := strings.Index(t, ":")
			if i < 0 {
				return nil, fmt.Errorf("bad op %q", t)
			}
			o := evOp{kind: 'C', h: uint32(tokU64(t[1:i]))}
			if t[i+1:] != "" {
				for _, et := range strings.Split(t[i+1:], "|") {
					e, err := tokenEv(et)
					if err != nil {
						return nil, err
					}
					o.batch = append(o.batch, e)
				}
			}
			ops = append(ops, o)
		default:
			return nil, fmt.Errorf("bad op %q", t)
		}
	}
	return ops, nil
}

// evRun executes an op sequence on the real store. items: the rendered result of every load (and a final "panic" for a
// panicking commit); diffs: loads that differ from what was committed at that height (the direct C24 monitor).
type evRun struct {
	items []string
	diffs []string
	loads int
}

func loadedItem(h uint32, evs events.Events) string {
	if evs == nil {
		return fmt.Sprintf("%d=nil", h)
	}
	if len(evs) == 0 {
		return fmt.Sprintf("%d=-", h)
	}
	return fmt.Sprintf("%d=%s", h, batchToken(evs))
}

func evFirstDiff(want, got string) string {
	w, g := strings.Split(want, "|"), strings.Split(got, "|")
	for i := 0; i < len(w) || i < len(g); i++ {
		a, b := "<none>", "<none>"
		if i < len(w) {
			a = w[i]
		}
		if i < len(g) {
			b = g[i]
		}
		if a != b {
			return fmt.Sprintf("event #%d committed=%s loaded=%s", i, a, b)
		}
	}
	return ""
}

func execEvents(ops []evOp, disk bool) (res evRun, err error) {
	var d db.DB
	dir := ""
	if disk {
		dir, err = ioutil.TempDir(tmpRoot(), "verif-events-")
		if err != nil {
			return res, err
		}
		defer os.RemoveAll(dir)
		d, err = db.NewGoLevelDB("events", dir)
		if err != nil {
			return res, err
		}
	} else {
		d = db.NewMemDB()
	}
	store := events.NewEventsStore(d)
	defer func() { store.Close() }()
	committed := map[uint32]string{} // height -> item body as committed
	for i, o := range ops {
		switch o.kind {
		case 'R':
			if disk {
				if e := store.Close(); e != nil {
					return res, e
				}
				d, err = db.NewGoLevelDB("events", dir)
				if err != nil {
					return res, err
				}
			}
			store = events.NewEventsStore(d)
		case 'C':
			out := safe(func() string {
				for _, e := range o.batch {
					store.AddEvent(e)
				}
				if e := store.CommitEvents(o.h); e != nil {
					return "error:" + e.Error()
				}
				return "ok"
			})
			if out != "ok" {
				res.items = append(res.items, out)
				return res, nil
			}
			committed[o.h] = loadedItem(o.h, append(events.Events{}, o.batch...))
		case 'L':
			item := safe(func() string { return loadedItem(o.h, store.LoadEvents(o.h)) })
			if item == "panic" {
				item = fmt.Sprintf("%d=panic", o.h)
			}
			res.items = append(res.items, item)
			res.loads++
			want, ok := committed[o.h]
			if !ok {
				want = fmt.Sprintf("%d=nil", o.h)
			}
			if item != want {
				d := evFirstDiff(want, item)
				if len(want) > 300 && len(item) > 300 {
					want, item = want[:300]+"…", item[:300]+"…"
				}
				res.diffs = append(res.diffs, fmt.Sprintf("op#%d L%d: %s (committed %s, loaded %s)", i, o.h, d, want, item))
			}
		}
	}
	return res, nil
}

// ---------------------------------------------------------------- generators

type evGen struct {
	r         *rand.Rand
	keys      []types.Pubkey
	addrs     []types.Address
	freshPct  int // chance (in %) of a brand-new key / address instead of one from the pool
	malformed bool
	kinds     map[string]int
	allKeys   map[types.Pubkey]bool
	allAddrs  map[types.Address]bool
	nilKeys   int
	defects   map[string]int
}

func (g *evGen) newKey() types.Pubkey {
	var k types.Pubkey
	switch g.r.Intn(12) {
	case 0: // tiny values (leading zero bytes)
		k[31] = byte(g.r.Intn(4))
	case 1:
		for i := range k {
			k[i] = 0xff
		}
		k[31] = byte(0xfc + g.r.Intn(4))
	default:
		g.r.Read(k[:])
	}
	return k
}

func (g *evGen) newAddr() types.Address {
	var a types.Address
	switch g.r.Intn(12) {
	case 0:
		a[19] = byte(g.r.Intn(4))
	case 1:
		for i := range a {
			a[i] = 0xff
		}
	default:
		g.r.Read(a[:])
	}
	return a
}

func (g *evGen) key() types.Pubkey {
	var k types.Pubkey
	if len(g.keys) == 0 || g.r.Intn(100) < g.freshPct {
		k = g.newKey()
		g.keys = append(g.keys, k)
	} else {
		k = g.keys[g.r.Intn(len(g.keys))]
	}
	g.allKeys[k] = true
	return k
}

func (g *evGen) addr() types.Address {
	var a types.Address
	if len(g.addrs) == 0 || g.r.Intn(100) < g.freshPct {
		a = g.newAddr()
		g.addrs = append(g.addrs, a)
	} else {
		a = g.addrs[g.r.Intn(len(g.addrs))]
	}
	g.allAddrs[a] = true
	return a
}

var e33 = new(big.Int).Exp(big.NewInt(10), big.NewInt(33), nil)

func (g *evGen) amount() string {
	switch g.r.Intn(10) {
	case 0, 1:
		return "0"
	case 2:
		return "1"
	case 3:
		return e33.String()
	case 4:
		return new(big.Int).Add(e33, big.NewInt(int64(g.r.Intn(3)-1))).String()
	case 5: // 2^k-1, 2^k: byte-boundary shapes of big.Int.Bytes()
		v := new(big.Int).Lsh(big.NewInt(1), uint(8*g.r.Intn(15)))
		return v.Sub(v, big.NewInt(int64(g.r.Intn(2)))).String()
	}
	return new(big.Int).Rand(g.r, e33).String()
}

func (g *evGen) coin() uint64 {
	switch g.r.Intn(8) {
	case 0:
		return 0
	case 1:
		return 1<<32 - 1
	case 2:
		return uint64(g.r.Intn(3))
	case 3:
		return 1993
	}
	return uint64(g.r.Uint32())
}

func (g *evGen) str() string {
	switch g.r.Intn(10) {
	case 0:
		return ""
	case 1:
		return "0"
	case 2:
		return e33.String()
	case 3: // valid UTF-8 that JSON has to escape
		return []string{"a\"b\\c", "<tag>&", "ünï-çødé ✓", "line\nbreak\ttab", " x"}[g.r.Intn(5)]
	}
	return new(big.Int).Rand(g.r, e33).String()
}

func (g *evGen) version() string {
	const al = "abcdefghijklmnopqrstuvwxyzABCDEFGHIJKLMNOPQRSTUVWXYZ0123456789_"
	n := 1 + g.r.Intn(20)
	b := make([]byte, n)
	for i := range b {
		b[i] = al[g.r.Intn(len(al))]
	}
	return string(b)
}

var evRoles = []string{"Validator", "Delegator", "DAO", "Developers"}

// defect: in the malformed stream, values the node never emits (the Lean model predicts what the store does with them).
func (g *evGen) defectAmount(a string) string {
	if !g.malformed || g.r.Intn(4) != 0 {
		return a
	}
	if g.r.Intn(2) == 0 && a != "0" {
		g.defects["negative-amount"]++
		return "-" + a
	}
	g.defects["leading-zero-amount"]++
	return "00" + a
}

func (g *evGen) defectU32(v uint64, what string) uint64 {
	if !g.malformed || g.r.Intn(5) != 0 {
		return v
	}
	g.defects[what+">=2^32"]++
	return []uint64{1 << 32, 1<<32 + 5, 1 << 63, 1<<64 - 1, v + 1<<32}[g.r.Intn(5)]
}

func (g *evGen) event() events.Event {
	k := g.r.Intn(24)
	switch {
	case k < 5:
		g.kinds["reward"]++
		role := evRoles[g.r.Intn(4)]
		if g.malformed && g.r.Intn(40) == 0 {
			g.defects["unknown-role"]++
			role = []string{"Validators", "", "dao"}[g.r.Intn(3)]
		}
		return &events.RewardEvent{Role: role, Address: g.addr(), Amount: g.defectAmount(g.amount()), ValidatorPubKey: g.key(), ForCoin: g.defectU32(g.coin(), "for_coin")}
	case k < 7:
		g.kinds["slash"]++
		return &events.SlashEvent{Address: g.addr(), Amount: g.defectAmount(g.amount()), Coin: g.defectU32(g.coin(), "coin"), ValidatorPubKey: g.key()}
	case k < 9:
		g.kinds["jail"]++
		ju := g.r.Uint64()
		if g.r.Intn(4) == 0 {
			ju = []uint64{0, 1<<64 - 1, 1 << 32, 10200001}[g.r.Intn(4)]
		}
		return &events.JailEvent{ValidatorPubKey: g.key(), JailedUntil: ju}
	case k < 12:
		g.kinds["unbond"]++
		e := &events.UnbondEvent{Address: g.addr(), Amount: g.defectAmount(g.amount()), Coin: g.defectU32(g.coin(), "coin")}
		if g.r.Intn(4) != 0 {
			pk := g.key()
			e.ValidatorPubKey = &pk
		} else {
			g.nilKeys++
		}
		return e
	case k < 14:
		g.kinds["unlock"]++
		return &events.UnlockEvent{Address: g.addr(), Amount: g.defectAmount(g.amount()), Coin: g.defectU32(g.coin(), "coin")}
	case k < 16:
		g.kinds["kick"]++
		return &events.StakeKickEvent{Address: g.addr(), Amount: g.defectAmount(g.amount()), Coin: g.defectU32(g.coin(), "coin"), ValidatorPubKey: g.key()}
	case k < 18:
		g.kinds["move"]++
		from := g.key()
		to := g.key()
		if g.r.Intn(6) == 0 {
			to = from
		}
		return &events.StakeMoveEvent{Address: g.addr(), Amount: g.defectAmount(g.amount()), Coin: g.defectU32(g.coin(), "coin"), CandidatePubKey: from, ToCandidatePubKey: to}
	case k < 20:
		g.kinds["orderExpired"]++
		id := uint64(g.r.Uint32())
		if g.r.Intn(4) == 0 {
			id = []uint64{0, 1, 1<<32 - 1}[g.r.Intn(3)]
		}
		return &events.OrderExpiredEvent{ID: g.defectU32(id, "order_id"), Address: g.addr(), Coin: g.defectU32(g.coin(), "coin"), Amount: g.defectAmount(g.amount())}
	case k < 21:
		g.kinds["removeCandidate"]++
		return &events.RemoveCandidateEvent{CandidatePubKey: g.key()}
	case k < 22:
		g.kinds["updateNetwork"]++
		return &events.UpdateNetworkEvent{Version: g.version()}
	case k < 23:
		g.kinds["updatedBlockReward"]++
		return &events.UpdatedBlockRewardEvent{Value: g.str(), ValueLockedStakeRewards: g.str()}
	}
	g.kinds["updateCommissions"]++
	e := &events.UpdateCommissionsEvent{Coin: g.coin()}
	rv := reflect.ValueOf(e).Elem()
	for i := 0; i < rv.NumField(); i++ {
		if rv.Field(i).Kind() == reflect.String {
			rv.Field(i).SetString(g.str())
		}
	}
	return e
}

func evDigest(items []string) string {
	h := fnv.New64a()
	h.Write([]byte(strings.Join(items, ";")))
	return fmt.Sprintf("%d:%016x", len(items), h.Sum64())
}

// evQLine: the Q line for an executed sequence (full rendering when short, digest otherwise).
func evQLine(ops []evOp, items []string) string {
	full := "-"
	if len(items) > 0 {
		full = strings.Join(items, ";")
	}
	if len(full) <= 6000 {
		return "Q evstore " + opsToken(ops) + " = " + full
	}
	return "Q evstoreh " + opsToken(ops) + " = " + evDigest(items)
}

// genSequence: commits at strictly increasing heights, restarts, loads of the current and of earlier heights after every step.
func genSequence(g *evGen, steps int, bigBatch bool, stats map[string]int) []evOp {
	r := g.r
	var ops []evOp
	var heights []uint32
	h := uint32(1 + r.Intn(3))
	if r.Intn(6) == 0 {
		h = uint32(InitialHeight + r.Intn(1000))
	}
	loads := func() {
		if len(heights) > 0 {
			ops = append(ops, evOp{kind: 'L', h: heights[len(heights)-1]})
			for j := 0; j < 1+r.Intn(3); j++ {
				ops = append(ops, evOp{kind: 'L', h: heights[r.Intn(len(heights))]})
			}
		}
		if r.Intn(5) == 0 { // a height nothing was committed at
			ops = append(ops, evOp{kind: 'L', h: h + 1 + uint32(r.Intn(3))})
		}
	}
	for s := 0; s < steps; s++ {
		if len(heights) > 0 && r.Intn(4) == 0 {
			ops = append(ops, evOp{kind: 'R'})
			stats["restarts"]++
			if r.Intn(3) != 0 { // otherwise: commit right after the restart, before any load warmed the cache
				loads()
				continue
			}
		}
		{
			size := 0
			switch x := r.Intn(10); {
			case x == 0:
				size = 0
			case x <= 2:
				size = 1
			case x <= 7:
				size = 2 + r.Intn(7)
			default:
				size = 9 + r.Intn(40)
			}
			if bigBatch && s == steps/2 {
				size = 500
			}
			switch {
			case size == 0:
				stats["batch=0"]++
			case size == 1:
				stats["batch=1"]++
			case size < 9:
				stats["batch=2..8"]++
			case size < 500:
				stats["batch=9..48"]++
			default:
				stats["batch=500"]++
			}
			b := make([]events.Event, size)
			for i := range b {
				b[i] = g.event()
			}
			ops = append(ops, evOp{kind: 'C', h: h, batch: b})
			heights = append(heights, h)
			stats["commits"]++
			stats["events"] += size
			loads()
			h += uint32(1 + r.Intn(3))
			if r.Intn(10) == 0 {
				h += uint32(r.Intn(100000))
			}
		}
	}
	return ops
}

// widthSequence: the uint16 pubkey-id boundary.  `total` distinct validator keys are interned (batches of `per` jail/reward
// events with fresh keys); height 1 holds a reward (key #1), an unbond without validator key and a jail (key #2).
// variant "restart": … then restart and load height 1 and the last height.
// variant "nokey": no restart; then commit an unbond without key and one more fresh key, and load everything again.
func widthSequence(r *rand.Rand, total int, variant string, stats map[string]int) []evOp {
	n := 0
	fresh := func() types.Pubkey {
		n++
		var k types.Pubkey
		r.Read(k[:8])
		k[28], k[29], k[30], k[31] = byte(n>>24), byte(n>>16), byte(n>>8), byte(n) // distinct by construction
		return k
	}
	var a types.Address
	r.Read(a[:])
	var ops []evOp
	k1, k2 := fresh(), fresh()
	ops = append(ops, evOp{kind: 'C', h: 1, batch: []events.Event{
		&events.RewardEvent{Role: "Validator", Address: a, Amount: "1000", ValidatorPubKey: k1, ForCoin: 0},
		&events.UnbondEvent{Address: a, Amount: "5", Coin: 0, ValidatorPubKey: nil},
		&events.JailEvent{ValidatorPubKey: k2, JailedUntil: 77},
	}}, evOp{kind: 'L', h: 1})
	h := uint32(2)
	const per = 500
	for n < total {
		sz := per
		if total-n < sz {
			sz = total - n
		}
		b := make([]events.Event, sz)
		for i := range b {
			if i%2 == 0 {
				b[i] = &events.JailEvent{ValidatorPubKey: fresh(), JailedUntil: uint64(n)}
			} else {
				b[i] = &events.StakeKickEvent{Address: a, Amount: "1", Coin: 0, ValidatorPubKey: fresh()}
			}
		}
		ops = append(ops, evOp{kind: 'C', h: h, batch: b})
		stats["commits"]++
		stats["events"] += sz
		if h%16 == 0 || n == total {
			ops = append(ops, evOp{kind: 'L', h: h}, evOp{kind: 'L', h: 1})
		}
		h++
	}
	switch variant {
	case "restart":
		ops = append(ops, evOp{kind: 'R'}, evOp{kind: 'L', h: 1}, evOp{kind: 'L', h: h - 1})
		stats["restarts"]++
	case "nokey":
		ops = append(ops,
			evOp{kind: 'C', h: h, batch: []events.Event{&events.UnbondEvent{Address: a, Amount: "6", Coin: 0, ValidatorPubKey: nil}}},
			evOp{kind: 'L', h: h}, evOp{kind: 'L', h: 1},
			evOp{kind: 'C', h: h + 1, batch: []events.Event{&events.JailEvent{ValidatorPubKey: fresh(), JailedUntil: 1}}},
			evOp{kind: 'L', h: h + 1}, evOp{kind: 'L', h: 1})
	}
	return ops
}

// EventsMode — see the comment at the top of the file.  n = number of generated sequences.
func EventsMode(seed int64, n int, tier, driver, keep string) ModeResult {
	res := ModeResult{Notes: map[string]interface{}{}}
	r := rand.New(rand.NewSource(seed))
	os.MkdirAll(keep, 0o755)
	tracePath := fmt.Sprintf("%s/events-%d.trace", keep, seed)
	sink, err := NewSink(tracePath, driver)
	if err != nil {
		res.Crash = err.Error()
		return res
	}
	stats := map[string]int{}
	kinds := map[string]int{}
	defects := map[string]int{}
	allKeys := map[types.Pubkey]bool{}
	allAddrs := map[types.Address]bool{}
	profiles := map[string]int{}
	nilKeys, loads, panics, qfull, qdigest := 0, 0, 0, 0, 0
	failed := false

	runOne := func(name string, ops []evOp, disk, wellFormed bool) {
		run, err := execEvents(ops, disk)
		if err != nil {
			res.Crash = "events store harness: " + err.Error()
			return
		}
		loads += run.loads
		res.Evaluations += run.loads
		for _, it := range run.items {
			if strings.HasSuffix(it, "panic") {
				panics++
			}
		}
		line := evQLine(ops, run.items)
		if strings.HasPrefix(line, "Q evstoreh") {
			qdigest++
		} else {
			qfull++
		}
		before := len(sink.Fails)
		sink.Op(line)
		res.Evaluations++
		replay := ""
		if len(sink.Fails) > before || (wellFormed && len(run.diffs) > 0) {
			failed = true
			replay = fmt.Sprintf("%s/events-%d-%s.replay", keep, seed, name)
			ioutil.WriteFile(replay, []byte(line+"\n"), 0o644)
		}
		for _, f := range sink.Fails[before:] {
			if len(f) > 1500 {
				f = f[:1500] + "…"
			}
			res.viol("C24", "model/code mismatch ("+name+"): "+f, replay)
		}
		if wellFormed {
			for i, d := range run.diffs {
				if i >= 3 {
					res.viol("C24", fmt.Sprintf("%s: … %d more differing loads", name, len(run.diffs)-3), replay)
					break
				}
				res.viol("C24", name+": loaded events differ from the committed ones: "+d, replay)
			}
		}
		if len(res.Samples) < 4 && len(line) < 1500 && r.Intn(40) == 0 {
			res.Samples = append(res.Samples, line)
		}
	}

	for i := 0; i < n && res.Crash == ""; i++ {
		g := &evGen{r: r, kinds: kinds, allKeys: allKeys, allAddrs: allAddrs, defects: defects}
		prof := ""
		switch r.Intn(5) {
		case 0:
			prof, g.freshPct = "few-keys", 0
			for j := 0; j < 1+r.Intn(3); j++ {
				g.keys = append(g.keys, g.newKey())
				g.addrs = append(g.addrs, g.newAddr())
			}
			if r.Intn(3) == 0 { // the all-zero key and address (the Go zero value of a failed table lookup)
				g.keys = append(g.keys, types.Pubkey{})
				g.addrs = append(g.addrs, types.Address{})
			}
		case 1, 2:
			prof, g.freshPct = "mixed-reuse", 10+r.Intn(30)
		case 3:
			prof, g.freshPct = "many-keys", 100
		default:
			prof, g.freshPct = "mostly-fresh", 80
		}
		g.malformed = i%8 == 7
		if g.malformed {
			prof = "malformed/" + prof
		}
		profiles[prof]++
		disk := i%5 == 1
		if disk {
			stats["seq-goleveldb"]++
		} else {
			stats["seq-memdb"]++
		}
		big := i%25 == 3
		steps := 3 + r.Intn(10)
		if tier == "thorough" && i%10 == 0 {
			steps = 20 + r.Intn(40)
		}
		ops := genSequence(g, steps, big, stats)
		nilKeys += g.nilKeys
		runOne(fmt.Sprintf("seq%d", i), ops, disk, !g.malformed)
	}

	if tier == "thorough" && res.Crash == "" {
		// the uint16 id width: 65 534 keys + restart must still be faithful; 65 535 keys + restart and 65 536 keys (id 0) are where
		// the ids stop being faithful (suspected finding S7) — reported as C24 violations with their op sequences if the store misbehaves.
		for _, w := range []struct {
			total   int
			variant string
		}{{65534, "restart"}, {65535, "restart"}, {65535, "nokey"}, {65536, "nokey"}} {
			ops := widthSequence(r, w.total, w.variant, stats)
			profiles["width"]++
			stats["seq-goleveldb"]++
			runOne(fmt.Sprintf("id-width-%d-%s", w.total, w.variant), ops, true, true)
		}
	}

	sink.Close()
	if !failed && os.Getenv("VERIF_KEEP_TRACE") == "" {
		os.Remove(tracePath)
	}
	res.Distinct = res.Evaluations
	res.Notes["events_per_kind"] = kinds
	res.Notes["distinct_pubkeys"] = len(allKeys)
	res.Notes["distinct_addresses"] = len(allAddrs)
	res.Notes["unbond_without_key"] = nilKeys
	res.Notes["ops"] = stats
	res.Notes["profiles"] = profiles
	res.Notes["malformed_defects"] = defects
	res.Notes["loads_compared"] = loads
	res.Notes["panics_observed"] = panics
	res.Notes["q_lines_full"] = qfull
	res.Notes["q_lines_digest"] = qdigest
	return res
}

// EventsReplay re-executes the `Q evstore…` lines of a replay/trace file on the real store (goleveldb) and sends them to the driver again.
func EventsReplay(path, driver, keep string) ModeResult {
	res := ModeResult{Notes: map[string]interface{}{}}
	sink, err := NewSink("", driver)
	if err != nil {
		res.Crash = err.Error()
		return res
	}
	for _, l := range readLines(path) {
		f := strings.Fields(l)
		if len(f) < 3 || f[0] != "Q" || !strings.HasPrefix(f[1], "evstore") {
			continue
		}
		ops, err := parseOpsToken(f[2])
		if err != nil {
			res.Crash = err.Error()
			return res
		}
		run, err := execEvents(ops, true)
		if err != nil {
			res.Crash = err.Error()
			return res
		}
		res.Evaluations += run.loads + 1
		for _, d := range run.diffs {
			res.viol("C24", "loaded events differ from the committed ones: "+d, path)
		}
		before := len(sink.Fails)
		sink.Op(evQLine(ops, run.items))
		for _, f := range sink.Fails[before:] {
			if len(f) > 1500 {
				f = f[:1500] + "…"
			}
			res.viol("C24", "model/code mismatch: "+f, path)
		}
	}
	sink.Close()
	return res
}
