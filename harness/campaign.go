package main

import (
	"encoding/json"
	"fmt"
	"io/ioutil"
	"os"
	"path/filepath"
	"sort"
	"strings"
	"sync"
	"time"

	tx "github.com/MinterTeam/minter-go-node/coreV2/transaction"
)

// Profile = named generator configuration used by the property checks.
func Profile(name string, seed int64, tier string) HistOpts {
	o := HistOpts{Seed: seed, Blocks: 36, TxPerBlk: 5, Malformed: 6, CustomGas: 25, Multisig: 8, AbsentPct: 2, ByzPct: 1, CheckTx: true, Script: 35}
	if tier == "thorough" {
		o.Blocks = 120
		o.TxPerBlk = 7
	}
	switch name {
	case "mixed":
	case "ledger": // dense in value-moving txs, custom gas coins, slashes
		w := DefaultWeights()
		for _, t := range []tx.TxType{tx.TypeSellCoin, tx.TypeBuyCoin, tx.TypeSellAllCoin, tx.TypeRedeemCheck, tx.TypeEditCoinOwner} {
			w[t] = 25
		}
		o.Weights = w
		o.CustomGas = 45
		o.ByzPct = 4
		o.AbsentPct = 4
	case "orders":
		w := DefaultWeights()
		w[tx.TypeAddLimitOrder] = 120
		w[tx.TypeRemoveLimitOrder] = 40
		w[tx.TypeSellSwapPool] = 80
		w[tx.TypeBuySwapPool] = 80
		w[tx.TypeSellAllSwapPool] = 30
		o.Weights = w
		o.CustomGas = 50
		o.OrderDance = 40
	case "staking":
		w := DefaultWeights()
		for _, t := range []tx.TxType{tx.TypeDelegate, tx.TypeUnbond, tx.TypeMoveStake, tx.TypeDeclareCandidacy, tx.TypeSetCandidateOnline, tx.TypeSetCandidateOffline, tx.TypeLock, tx.TypeLockStake} {
			w[t] = 80
		}
		o.Weights = w
		o.ByzPct = 5
		o.AbsentPct = 6
	case "begin": // BeginBlock: staking traffic after the initial grace period, long absences, evidence (also duplicated)
		w := DefaultWeights()
		for _, t := range []tx.TxType{tx.TypeDelegate, tx.TypeUnbond, tx.TypeMoveStake, tx.TypeSetCandidateOnline, tx.TypeSetCandidateOffline, tx.TypeLock, tx.TypeLockStake} {
			w[t] = 80
		}
		o.Weights = w
		o.Gen = GenOpts{Candidates: 9, ValidatorN: 9}
		o.ByzPct = 15
		o.AbsentPct = 12
		o.DupByzPct = 40
		o.CustomGas = 10
		o.Malformed = 2
		o.CheckTx = false
		o.Script = 0
		o.Warmup = 112 // the grace period of the start height ends after block 120: the generated blocks straddle its end
	case "prune": // more than 100 candidates: the weakest are removed at the first recalculation while moves towards them are in flight
		w := DefaultWeights()
		for _, t := range []tx.TxType{tx.TypeDelegate, tx.TypeUnbond, tx.TypeMoveStake, tx.TypeDeclareCandidacy} {
			w[t] = 60
		}
		o.Weights = w
		o.Gen = GenOpts{Candidates: 104, ValidatorN: 4, ExtraPK: 24}
		o.Script = 0
		o.CheckTx = false
		o.Malformed = 2
		o.TxPerBlk = 3
		o.RankDance = 35 // newcomers with large / boundary stakes, delegations and unbonds around rank 100 inside every period
	case "restarting": // mixed traffic on a disk node that is stopped and reopened after about a quarter of the commits, with the driver attached
		w := DefaultWeights()
		for _, t := range []tx.TxType{tx.TypeEditCoinOwner, tx.TypeEditCandidate, tx.TypeEditMultisig, tx.TypeCreateMultisig, tx.TypeMintToken, tx.TypeCreateToken, tx.TypeRecreateToken, tx.TypeRecreateCoin, tx.TypeEditCandidatePublicKey, tx.TypeEditCandidateCommission} {
			w[t] = 25
		}
		o.Weights = w
		o.Node.Disk = true
		o.Restarts = 25
		o.OwnerDance = 20 // ticker hand-overs, then the new and the former owner act (same block, later blocks, after restarts)
		o.Malformed = 3
		o.CheckTx = false
	case "governance": // many votes for near heights while the validator set keeps changing
		w := DefaultWeights()
		for _, t := range []tx.TxType{tx.TypeSetHaltBlock, tx.TypeVoteUpdate, tx.TypeVoteCommission} {
			w[t] = 60
		}
		for _, t := range []tx.TxType{tx.TypeSetCandidateOnline, tx.TypeSetCandidateOffline, tx.TypeDeclareCandidacy, tx.TypeDelegate} {
			w[t] = 40
		}
		o.Weights = w
		o.Gen = GenOpts{Candidates: 7, ValidatorN: 3, BigStakes: false}
		o.NearVotes = true
		o.Node.Period = 6
		o.AbsentPct = 5
		o.Malformed = 2
	case "govrestart": // governance traffic on a disk node that is stopped and reopened after about a quarter of the commits:
		// votes committed before a restart must still count, and still block a second vote, afterwards
		w := DefaultWeights()
		for _, t := range []tx.TxType{tx.TypeSetHaltBlock, tx.TypeVoteUpdate, tx.TypeVoteCommission} {
			w[t] = 80
		}
		o.Weights = w
		o.Gen = GenOpts{Candidates: 7, ValidatorN: 3, BigStakes: false}
		o.NearVotes = true
		o.Node.Period = 6
		o.Node.Disk = true
		o.Restarts = 30
		o.Malformed = 2
		o.CheckTx = false
	case "malformed":
		o.Malformed = 60
		o.CheckTx = true
	case "checktx":
		o.CheckTx = true
		o.CustomGas = 50
	case "rewardtime":
		o.TimeMode = 1
	case "pricecoin": // the price table is denominated in a custom coin (token 4, pool 4/BIP), gas prices up to 50
		o.Gen = GenOpts{PriceCoin: 4}
		o.GasPriceMax = 50
		o.CustomGas = 40
	}
	if BlocksOverride > 0 {
		o.Blocks = BlocksOverride
	}
	return o
}

type HistResult struct {
	Seed    int64          `json:"seed"`
	Profile string         `json:"profile"`
	Ops     int            `json:"ops"`
	Lines   int            `json:"lines"`
	Stats   map[string]int `json:"stats"`
	Panics  []string       `json:"panics"`
	Fails   []string       `json:"fails"`
	Trace   string         `json:"trace,omitempty"`
	Sample  []string       `json:"sample,omitempty"`
	Err     string         `json:"err,omitempty"`
}

type CampaignResult struct {
	Hist      []HistResult   `json:"histories"`
	Stats     map[string]int `json:"stats"`
	Ops       int            `json:"ops"`
	WallS     float64        `json:"wall_s"`
	Histories int            `json:"n_histories"`
}

func runOne(profile string, seed int64, tier, driver, keepDir string) HistResult {
	res := HistResult{Seed: seed, Profile: profile}
	tmp, _ := ioutil.TempFile(tmpRoot(), "verif-trace-")
	tmp.Close()
	tracePath := tmp.Name()
	defer os.Remove(tracePath)
	sink, err := NewSink(tracePath, driver)
	if err != nil {
		res.Err = err.Error()
		return res
	}
	h, err := NewHist(Profile(profile, seed, tier), sink)
	if err != nil {
		res.Err = err.Error()
		sink.Close()
		return res
	}
	h.Run()
	sink.Close()
	h.N.Destroy()
	res.Ops, res.Lines, res.Stats, res.Panics, res.Fails = h.Ops, sink.NLines, h.Stats, h.Panics, sink.Fails
	if len(res.Panics) > 0 || len(res.Fails) > 0 {
		dst := filepath.Join(keepDir, fmt.Sprintf("%s-%d.trace", profile, seed))
		os.MkdirAll(keepDir, 0o755)
		if b, e := ioutil.ReadFile(tracePath); e == nil {
			ioutil.WriteFile(dst, b, 0o644)
			res.Trace = dst
		}
	}
	// a small sample of op lines for the evidence
	if b, e := ioutil.ReadFile(tracePath); e == nil {
		for _, l := range strings.Split(string(b), "\n") {
			if (strings.HasPrefix(l, "D ") || strings.HasPrefix(l, "B ")) && len(res.Sample) < 3 {
				if len(l) > 300 {
					l = l[:300] + "..."
				}
				res.Sample = append(res.Sample, l)
			}
		}
	}
	return res
}

// ExactSeeds, when set, replaces the seeds derived from the base seed (used to re-run particular histories).
var ExactSeeds []int64

// BlocksOverride, when > 0, replaces the number of blocks of the profile (used by the search for a failing input:
// the same history continued for longer, e.g. until funds mature).
var BlocksOverride int

// Campaign runs n histories of a profile in parallel.
func Campaign(profile string, baseSeed int64, n int, tier, driver, keepDir string, par int) CampaignResult {
	start := time.Now()
	out := CampaignResult{Stats: map[string]int{}}
	if len(ExactSeeds) > 0 {
		n = len(ExactSeeds)
	}
	results := make([]HistResult, n)
	var wg sync.WaitGroup
	sem := make(chan struct{}, par)
	for i := 0; i < n; i++ {
		wg.Add(1)
		sem <- struct{}{}
		go func(i int) {
			defer wg.Done()
			defer func() { <-sem }()
			sd := baseSeed*1000 + int64(i)
			if len(ExactSeeds) > 0 {
				sd = ExactSeeds[i]
			}
			results[i] = runOne(profile, sd, tier, driver, keepDir)
		}(i)
	}
	wg.Wait()
	for _, r := range results {
		out.Ops += r.Ops
		for k, v := range r.Stats {
			out.Stats[k] += v
		}
	}
	out.Hist = results
	out.Histories = n
	out.WallS = time.Since(start).Seconds()
	return out
}

func writeJSON(path string, v interface{}) {
	b, _ := json.MarshalIndent(v, "", " ")
	if path == "" || path == "-" {
		fmt.Println(string(b))
		return
	}
	ioutil.WriteFile(path, b, 0o644)
}

func sortedKeys(m map[string]int) []string {
	ks := make([]string, 0, len(m))
	for k := range m {
		ks = append(ks, k)
	}
	sort.Strings(ks)
	return ks
}
