package main

import (
	"fmt"
	"math/big"
	"reflect"
	"strings"

	"github.com/MinterTeam/minter-go-node/coreV2/check"
	"github.com/MinterTeam/minter-go-node/coreV2/state/accounts"
	tx "github.com/MinterTeam/minter-go-node/coreV2/transaction"
	"github.com/MinterTeam/minter-go-node/coreV2/types"
	"github.com/MinterTeam/minter-go-node/crypto"
	"github.com/MinterTeam/minter-go-node/rlp"
	"golang.org/x/crypto/sha3"
)

var realDecoder = tx.NewExecutorV3(tx.GetDataV3).(*tx.ExecutorV3)

// decodedFields renders what the real decoder sees in raw: header fields, recovered sender/signers, data fields.
// Returns "" when the real decoder rejects the bytes.
func decodedFields(raw []byte) string {
	defer func() { recover() }()
	if len(raw) > 16144 {
		return "dec=toolarge"
	}
	t, err := realDecoder.DecodeFromBytes(raw)
	if err != nil {
		return "dec=0"
	}
	var sb strings.Builder
	fmt.Fprintf(&sb, "dec=1 rawlen=%d typ=%d nonce=%d chain=%d gasprice=%d gascoin=%d paylen=%d svclen=%d sigtype=%d gas=%d", len(raw), t.Type, t.Nonce, t.ChainID, t.GasPrice, t.GasCoin, len(t.Payload), len(t.ServiceData), t.SignatureType, t.Gas())
	sender, serr := t.Sender()
	if serr != nil {
		sb.WriteString(" sigok=0")
	} else {
		fmt.Fprintf(&sb, " sigok=1 from=%x", sender[:])
	}
	if t.SignatureType == tx.SigTypeMulti {
		var ms tx.SignatureMulti
		if err := rlp.DecodeBytes(t.SignatureData, &ms); err == nil {
			h := t.Hash()
			var parts []string
			for _, s := range ms.Signatures {
				a, e := tx.RecoverPlain(h, s.R, s.S, s.V)
				if e != nil {
					parts = append(parts, "bad")
				} else {
					parts = append(parts, fmt.Sprintf("%x", a[:]))
				}
			}
			fmt.Fprintf(&sb, " signers=%s", strings.Join(parts, ","))
		}
	}
	d := t.GetDecodedData()
	if d != nil {
		sb.WriteString(renderStruct("d", reflect.Indirect(reflect.ValueOf(d))))
	}
	// oracle facts (hashes, signature recovery) the handlers of these types depend on, computed by the node's own functions
	if serr == nil {
		switch x := d.(type) {
		case *tx.RedeemCheckData:
			sb.WriteString(checkFacts(x, sender))
		case *tx.CreateMultisigData:
			m := accounts.CreateMultisigAddress(sender, t.Nonce)
			fmt.Fprintf(&sb, " k.msig=%x", m[:])
		}
	}
	return sb.String()
}

// checkFacts renders the check carried by a RedeemCheck transaction as the node decodes it: fields, recovered issuer,
// the lock public key, the public key recovered from the proof over keccak(rlp[redeemer]) and the check hash.
func checkFacts(data *tx.RedeemCheckData, redeemer types.Address) (out string) {
	defer func() {
		if r := recover(); r != nil {
			out += " k.panic=1"
		}
	}()
	if len(data.RawCheck) == 0 {
		return " k.dec=empty"
	}
	c, err := check.DecodeFromBytes(data.RawCheck)
	if err != nil {
		return " k.dec=0"
	}
	var sb strings.Builder
	val := "0"
	if c.Value != nil {
		val = c.Value.String()
	}
	fmt.Fprintf(&sb, " k.dec=1 k.chain=%d k.noncelen=%d k.due=%d k.coin=%d k.value=%s k.gascoin=%d", c.ChainID, len(c.Nonce), c.DueBlock, c.Coin, val, c.GasCoin)
	if a, err := c.Sender(); err == nil {
		fmt.Fprintf(&sb, " k.from=%x", a[:])
	} else {
		sb.WriteString(" k.from=bad")
	}
	h := c.Hash()
	fmt.Fprintf(&sb, " k.hash=%x", h[:])
	if c.Lock == nil {
		sb.WriteString(" k.lock=nil")
	} else if pk, err := c.LockPubKey(); err == nil {
		fmt.Fprintf(&sb, " k.lock=%x", pk)
	} else {
		sb.WriteString(" k.lock=bad")
	}
	var senderAddressHash types.Hash
	hw := sha3.NewLegacyKeccak256()
	_ = rlp.Encode(hw, []interface{}{redeemer})
	hw.Sum(senderAddressHash[:0])
	if pub, err := crypto.Ecrecover(senderAddressHash[:], data.Proof[:]); err == nil {
		fmt.Fprintf(&sb, " k.proofpub=%x", pub)
	} else {
		sb.WriteString(" k.proofpub=bad")
	}
	return sb.String()
}

func renderVal(v reflect.Value) string {
	switch x := v.Interface().(type) {
	case *big.Int:
		if x == nil {
			return "nil"
		}
		return x.String()
	case types.Address:
		return fmt.Sprintf("%x", x[:])
	case types.Pubkey:
		return fmt.Sprintf("%x", x[:])
	case types.CoinID:
		return fmt.Sprint(uint32(x))
	case types.CoinSymbol:
		return x.String()
	case string:
		return fmt.Sprintf("%x", []byte(x)) // hex, may contain spaces
	case []byte:
		return fmt.Sprintf("%x", x)
	case [65]byte:
		return fmt.Sprintf("%x", x[:])
	case bool:
		if x {
			return "true"
		}
		return "false"
	}
	switch v.Kind() {
	case reflect.Uint, reflect.Uint8, reflect.Uint16, reflect.Uint32, reflect.Uint64:
		return fmt.Sprint(v.Uint())
	case reflect.Int, reflect.Int64:
		return fmt.Sprint(v.Int())
	case reflect.Slice:
		var parts []string
		for i := 0; i < v.Len(); i++ {
			e := v.Index(i)
			if e.Kind() == reflect.Struct {
				var fs []string
				for j := 0; j < e.NumField(); j++ {
					fs = append(fs, renderVal(e.Field(j)))
				}
				parts = append(parts, strings.Join(fs, ":"))
			} else {
				parts = append(parts, renderVal(e))
			}
		}
		if len(parts) == 0 {
			return "-"
		}
		return strings.Join(parts, ",")
	}
	return "?"
}

func renderStruct(prefix string, v reflect.Value) string {
	var sb strings.Builder
	if v.Kind() != reflect.Struct {
		return ""
	}
	for i := 0; i < v.NumField(); i++ {
		f := v.Type().Field(i)
		if f.PkgPath != "" {
			continue
		}
		val := renderVal(v.Field(i))
		if val == "" {
			val = "-"
		}
		fmt.Fprintf(&sb, " %s.%s=%s", prefix, f.Name, val)
	}
	return sb.String()
}
