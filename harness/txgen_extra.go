package main

import (
	"math/big"
	"sort"

	"github.com/MinterTeam/minter-go-node/coreV2/state/coins"
	tx "github.com/MinterTeam/minter-go-node/coreV2/transaction"
	"github.com/MinterTeam/minter-go-node/coreV2/types"
)

// Scenario generators that need memory across blocks or a look at the ranking of the candidates. They are switched on per
// profile (HistOpts.RankDance / HistOpts.OwnerDance, percent per transaction slot) and never draw from the history's
// random stream when they are off, so the other profiles generate exactly what they generated before.

// danceState is the generators' memory of one history.
type danceState struct {
	Handovers []handover // accepted or attempted ticker hand-overs, oldest first
}

// handover: the ticker `Sym` was handed from `From` to `To` by an EditCoinOwner generated at height `H`.
type handover struct {
	Sym      types.CoinSymbol
	From, To types.Address
	H        uint64
}

// extraTxs returns a queue of scenario transactions for the next slot(s), or nil for ordinary traffic.
func (h *Hist) extraTxs(height uint64) []*GenTx {
	if h.O.RankDance > 0 && h.W.Rng.Intn(100) < h.O.RankDance {
		if q := h.G.rankDance(height); len(q) > 0 {
			return q
		}
	}
	if h.O.OwnerDance > 0 && h.W.Rng.Intn(100) < h.O.OwnerDance {
		if h.Dance == nil {
			h.Dance = &danceState{}
		}
		if q := h.G.ownerDance(h.Dance, height); len(q) > 0 {
			return q
		}
	}
	return nil
}

// ---- the ranking boundary of the candidates (rank 100: RecalculateStakesV2 removes what is behind it) ----

type rankedCand struct {
	pk    types.Pubkey
	id    uint32
	total *big.Int
}

// pruneOrder: the candidates in the node's pruning order (total stake of the last recalculation desc, id asc).
func (g *Gen) pruneOrder() []rankedCand {
	var l []rankedCand
	for _, c := range g.cs().Candidates().GetCandidates() {
		l = append(l, rankedCand{c.PubKey, c.ID, c.GetTotalBipStake()})
	}
	sort.SliceStable(l, func(i, j int) bool {
		if cmp := l[i].total.Cmp(l[j].total); cmp != 0 {
			return cmp > 0
		}
		return l[i].id < l[j].id
	})
	return l
}

// richest returns the known single-signature account with the largest base-coin balance.
func (g *Gen) richest() (types.Address, *big.Int) {
	best, bal := g.W.Addrs[0], big.NewInt(0)
	for _, a := range g.W.Addrs {
		if b := g.cs().Accounts().GetBalance(a, 0); b.Cmp(bal) > 0 {
			best, bal = a, b
		}
	}
	return best, bal
}

// rankDance: transactions that move the boundary of the first 100 candidates inside a period, so that the ranking at the next
// recalculation differs from the ranking of the last one:
//   - a new candidate declares with a stake that is large / just above / exactly equal to / just below the total of the
//     candidate at rank 100 (its own total stays 0 until the recalculation: the stake sits in the pending updates),
//   - a delegation lifts a candidate from behind rank ~95 over the boundary,
//   - an unbond sinks a candidate from just inside the boundary.
func (g *Gen) rankDance(height uint64) []*GenTx {
	cs := g.cs()
	order := g.pruneOrder()
	if len(order) < 90 {
		return nil
	}
	at := len(order) - 1
	if at > candidatesLimit-1 {
		at = candidatesLimit - 1
	}
	boundary := order[at].total // total of the candidate at rank 100 (or of the last one)
	switch g.rint(10) {
	case 0, 1, 2, 3, 4: // newcomer
		var fresh []types.Pubkey
		for _, pk := range g.W.PubKeys {
			if !cs.Candidates().Exists(pk) && !cs.Candidates().IsBlockedPubKey(pk) {
				fresh = append(fresh, pk)
			}
		}
		if len(fresh) == 0 {
			break
		}
		pk := fresh[g.rint(len(fresh))]
		s, bal := g.richest()
		var stake *big.Int
		switch g.rint(6) {
		case 0, 1:
			stake = new(big.Int).Mul(boundary, big.NewInt(int64(3+g.rint(20)))) // far above the boundary
			stake.Add(stake, pip(int64(10000+g.rint(90000))))
		case 2:
			stake = new(big.Int).Add(boundary, big.NewInt(int64(1+g.rint(1000)))) // a few pip above
		case 3:
			stake = new(big.Int).Set(boundary) // exactly equal: the smaller id wins
		case 4:
			stake = new(big.Int).Sub(boundary, big.NewInt(int64(1+g.rint(1000)))) // a few pip below
		default:
			stake = new(big.Int).Add(boundary, pip(int64(1+g.rint(3000))))
		}
		if stake.Sign() <= 0 {
			stake = pip(int64(1 + g.rint(100)))
		}
		if lim := new(big.Int).Div(bal, big.NewInt(2)); stake.Cmp(lim) > 0 {
			stake = lim
		}
		t := g.Build(tx.TypeDeclareCandidacy, tx.DeclareCandidacyData{Address: s, PubKey: pk, Commission: uint32(g.rint(101)), Coin: 0, Stake: stake}, s, 0)
		t.Note = "rank:newcomer"
		return []*GenTx{t}
	case 5, 6, 7: // lift a candidate from behind the boundary over it
		lo := len(order) - 12
		if lo < 0 {
			lo = 0
		}
		c := order[lo+g.rint(len(order)-lo)]
		s, bal := g.richest()
		target := order[(candidatesLimit-8)+g.rint(8)].total // somewhere in ranks 93..100
		v := new(big.Int).Sub(target, c.total)
		v.Add(v, big.NewInt(int64(g.rint(3))-1)) // one pip short, equal, one pip over
		if v.Sign() <= 0 {
			v = pip(int64(1 + g.rint(500)))
		}
		if lim := new(big.Int).Div(bal, big.NewInt(3)); v.Cmp(lim) > 0 {
			v = lim
		}
		t := g.Build(tx.TypeDelegate, tx.DelegateDataV260{PubKey: c.pk, Coin: 0, Value: v}, s, 0)
		t.Note = "rank:lift"
		return []*GenTx{t}
	default: // sink a candidate from just inside the boundary
		lo := candidatesLimit - 12
		for tries := 0; tries < 8; tries++ {
			i := lo + g.rint(12)
			if i >= len(order) {
				continue
			}
			stakes := cs.Candidates().GetStakes(order[i].pk)
			if len(stakes) == 0 {
				continue
			}
			st := stakes[g.rint(len(stakes))]
			if g.W.KeyOf[st.Owner] == nil {
				continue
			}
			v := new(big.Int).Set(st.Value)
			if g.rint(2) == 0 {
				v.Div(v, big.NewInt(int64(2+g.rint(3))))
			}
			if v.Sign() <= 0 {
				continue
			}
			t := g.Build(tx.TypeUnbond, tx.UnbondDataV3{PubKey: order[i].pk, Coin: st.Coin, Value: v}, st.Owner, 0)
			t.Note = "rank:sink"
			return []*GenTx{t}
		}
	}
	return nil
}

// ---- ticker hand-overs ----

// tickerOf returns the active (version 0) coin of a ticker.
func (g *Gen) tickerOf(sym types.CoinSymbol) *coins.Model {
	return g.cs().Coins().GetCoinBySymbol(sym, 0)
}

// ownerAction builds an owner-gated transaction on the ticker, signed by `who` (who may or may not be the owner).
func (g *Gen) ownerAction(sym types.CoinSymbol, who types.Address, note string) *GenTx {
	c := g.tickerOf(sym)
	if c == nil {
		return nil
	}
	amt := pip(int64(1 + g.rint(100000)))
	maxs := new(big.Int).Mul(amt, big.NewInt(int64(2+g.rint(100))))
	var t *GenTx
	switch k := g.rint(10); {
	case k < 4 && c.IsToken() && c.IsMintable():
		t = g.Build(tx.TypeMintToken, tx.MintTokenData{Coin: c.ID(), Value: pip(int64(1 + g.rint(5000)))}, who, 0)
	case k < 7:
		if c.IsToken() {
			t = g.Build(tx.TypeRecreateToken, tx.RecreateTokenData{Name: "ret", Symbol: sym, InitialAmount: amt, MaxSupply: maxs, Mintable: g.rint(3) != 0, Burnable: g.rint(2) == 0}, who, 0)
		} else {
			t = g.Build(tx.TypeRecreateCoin, tx.RecreateCoinData{Name: "re", Symbol: sym, InitialAmount: amt, InitialReserve: pip(int64(10000 + g.rint(20000))), ConstantReserveRatio: uint32(10 + g.rint(91)), MaxSupply: maxs}, who, 0)
		}
	default:
		t = g.Build(tx.TypeEditCoinOwner, tx.EditCoinOwnerData{Symbol: sym, NewOwner: g.pickAddr()}, who, 0)
	}
	t.Note = note
	return t
}

// ownerDance: a ticker is handed over (EditCoinOwner signed by its owner, fee in the base coin) and then, in the same block
// or many blocks - and possibly restarts - later, the new owner and the former owner both try to use the ticker
// (mint, recreate, hand over again). Only the current owner may succeed.
func (g *Gen) ownerDance(d *danceState, height uint64) []*GenTx {
	cs := g.cs()
	if len(d.Handovers) > 0 && g.rint(100) < 55 {
		// follow up an earlier hand-over: recent ones more often, but old ones too (a restart may lie in between)
		i := len(d.Handovers) - 1 - g.rint(minInt(len(d.Handovers), 6))
		ho := d.Handovers[i]
		var q []*GenTx
		if g.rint(2) == 0 {
			q = append(q, g.ownerAction(ho.Sym, ho.To, "owner:new-owner-acts"))
		} else {
			q = append(q, g.ownerAction(ho.Sym, ho.From, "owner:former-owner-acts"))
		}
		if g.rint(3) == 0 {
			q = append(q, g.ownerAction(ho.Sym, ho.To, "owner:new-owner-acts"))
		}
		return compactTxs(q)
	}
	// a new hand-over of a ticker whose owner can sign
	var syms []types.CoinSymbol
	for _, id := range g.allCoinIDs() {
		c := cs.Coins().GetCoin(id)
		if c == nil || c.Version() != 0 {
			continue
		}
		if info := cs.Coins().GetSymbolInfo(c.Symbol()); info != nil && info.OwnerAddress() != nil && g.W.KeyOf[*info.OwnerAddress()] != nil {
			syms = append(syms, c.Symbol())
		}
	}
	if len(syms) == 0 {
		return nil
	}
	sym := syms[g.rint(len(syms))]
	from := *cs.Coins().GetSymbolInfo(sym).OwnerAddress()
	to := g.pickAddr()
	for tries := 0; tries < 4 && to == from; tries++ {
		to = g.pickAddr()
	}
	t := g.Build(tx.TypeEditCoinOwner, tx.EditCoinOwnerData{Symbol: sym, NewOwner: to}, from, 0)
	t.Note = "owner:handover"
	d.Handovers = append(d.Handovers, handover{Sym: sym, From: from, To: to, H: height})
	if len(d.Handovers) > 24 {
		d.Handovers = d.Handovers[1:]
	}
	q := []*GenTx{t}
	switch g.rint(4) {
	case 0: // the new owner uses the ticker in the same block
		q = append(q, g.ownerAction(sym, to, "owner:new-owner-acts"))
	case 1: // the former owner tries in the same block
		q = append(q, g.ownerAction(sym, from, "owner:former-owner-acts"))
	case 2:
		q = append(q, g.ownerAction(sym, to, "owner:new-owner-acts"), g.ownerAction(sym, from, "owner:former-owner-acts"))
	}
	return compactTxs(q)
}

func compactTxs(q []*GenTx) []*GenTx {
	var out []*GenTx
	for _, t := range q {
		if t != nil {
			out = append(out, t)
		}
	}
	return out
}
