package main

import (
	"encoding/hex"
	"fmt"
	"math/big"
	"math/rand"
	"os"
	"reflect"
	"strings"
	"time"

	"github.com/MinterTeam/minter-go-node/coreV2/appdb"
	"github.com/MinterTeam/minter-go-node/coreV2/minter"
	"github.com/MinterTeam/minter-go-node/coreV2/state"
	"github.com/MinterTeam/minter-go-node/coreV2/state/coins"
	"github.com/MinterTeam/minter-go-node/coreV2/state/commission"
	tx "github.com/MinterTeam/minter-go-node/coreV2/transaction"
	"github.com/MinterTeam/minter-go-node/coreV2/types"
	"github.com/MinterTeam/minter-go-node/formula"
	mmath "github.com/MinterTeam/minter-go-node/math"
	db "github.com/tendermint/tm-db"
)

// RulesMode: differential test of the three rule kernels (C20 governance threshold and tallies, C27 fee formula and
// route choice, C28 block reward rule): the real Go code is evaluated on generated inputs and the Lean definitions of
// MinterModel/Rules.lean (the ones the theorems of Props/C20, C27, C28 are about) on the same inputs by the driver.
//
//	part A  isMoreThanTwoThirds, calculatePowers, isApplicationHalted, isUpdateCommissionsBlockV2, isUpdateNetworkBlockV2
//	        (hooks minter.VerifCalculatePowers / VerifTallies on a real state.State holding the votes)
//	part B  CommissionData of the data struct GetDataV3 selects for each of the 37 types, tx.Price, tx.MulGasPrice, PayForSymbol
//	part C  CalculateCommission / CheckSwap on the CheckState of a real node (route choice, conversion through the pool)
//	part D  vote transactions (types 15, 32, 33) delivered to a real node: past heights, duplicates
//	part E  appdb.UpdatePriceFix sequences on a real AppDB (MemDB)
//	part F  BeginBlock window rule and EndBlock emission on a real node with generated block times
//
// RulesOnly restricts the mode to the parts of one property ("c20": A, D; "c27": B, C, G; "c28": E, F); anything else runs all.
var RulesOnly string

func rulesWants(prop string) bool {
	o := strings.ToLower(RulesOnly)
	return (o != "c20" && o != "c27" && o != "c28") || o == prop
}

func RulesMode(seed int64, n int, tier, driver, keep string) ModeResult {
	res := ModeResult{Notes: map[string]interface{}{}}
	types.CurrentChainID = types.ChainTestnet
	r := rand.New(rand.NewSource(seed))
	tracePath := fmt.Sprintf("%s/rules-%d.trace", keep, seed)
	os.MkdirAll(keep, 0o755)
	sink, err := NewSink(tracePath, driver)
	if err != nil {
		res.Crash = err.Error()
		return res
	}
	if n <= 0 {
		n = 250
		if tier == "thorough" {
			n = 3000
		}
	}
	switch strings.ToLower(RulesOnly) { // a single property's parts: more of them
	case "c20":
		n *= 4
	case "c28":
		n *= 5
	}
	R := &rulesRun{r: r, sink: sink, res: &res, counts: map[string]int{}, dist: map[string]int{}}
	func() {
		defer func() {
			if p := recover(); p != nil {
				res.Crash = fmt.Sprintf("harness panic: %v", shortPanic(p))
			}
		}()
		if rulesWants("c20") {
			R.partA(4 * n)
		}
		if rulesWants("c27") {
			R.partB(n)
		}
		nodes := 4 + n/60
		if nodes > 60 {
			nodes = 60
		}
		for i := 0; i < nodes; i++ {
			R.partCD(seed*1000+int64(i), 100+n/5)
		}
		nf := 3 + n/80
		if nf > 40 {
			nf = 40
		}
		if rulesWants("c28") {
			R.partE(10+n/10, 40)
			for i := 0; i < nf; i++ {
				R.partF(seed*7919+int64(i), 120+n/5, i)
			}
		}
		if rulesWants("c27") {
			for i := 0; i < 2+n/100; i++ {
				R.partG(seed*104729+int64(i), 24)
			}
		}
	}()
	sink.Close()
	for _, f := range sink.Fails {
		for _, p := range rulesPropsOf(f) {
			res.viol(p, f, tracePath)
		}
	}
	if res.Crash != "" {
		for _, p := range rulesPropsOf("") {
			res.viol(p, "FAIL rules mode crashed: "+res.Crash, tracePath)
		}
	}
	if len(sink.Fails) == 0 && res.Crash == "" && os.Getenv("RULES_KEEP_TRACE") == "" {
		os.Remove(tracePath)
	}
	res.Distinct = res.Evaluations
	res.Notes["parts"] = map[string]bool{"c20": rulesWants("c20"), "c27": rulesWants("c27"), "c28": rulesWants("c28")}
	res.Notes["per_kernel"] = R.counts
	res.Notes["distribution"] = R.dist
	res.Notes["pricecount_max_abs_dev_from_exact_root"] = R.maxDev.String()
	res.Notes["pricecount_max_rel_dev"] = R.maxRel
	return res
}

// rulesPropsOf attributes a failure line to the property of the kernel it names; a failure that names no kernel
// (driver died, node could not start …) counts for every property whose parts ran.
func rulesPropsOf(fail string) []string {
	for _, k := range []string{"two3", "calcpowers", "tally", "votecheck"} {
		if strings.Contains(fail, "kernel "+k) {
			return []string{"C20"}
		}
	}
	for _, k := range []string{"typeprice", "txprice", "symprice", "route", "commission", "tobase", "tickerburn"} {
		if strings.Contains(fail, "kernel "+k) {
			return []string{"C27"}
		}
	}
	for _, k := range []string{"updprice", "pricecert", "pct", "window", "hour", "beginreward", "emit"} {
		if strings.Contains(fail, "kernel "+k) || strings.Contains(fail, "(C28)") {
			return []string{"C28"}
		}
	}
	var out []string
	for _, p := range []string{"c20", "c27", "c28"} {
		if rulesWants(p) {
			out = append(out, strings.ToUpper(p))
		}
	}
	return out
}

type rulesRun struct {
	r      *rand.Rand
	sink   *Sink
	res    *ModeResult
	counts map[string]int
	dist   map[string]int
	maxDev big.Int
	maxRel float64
}

func (R *rulesRun) emit(fn string, args []string, out string) {
	line := "Q " + fn + " " + strings.Join(args, " ") + " = " + out
	R.sink.Op(line)
	R.counts[fn]++
	R.res.Evaluations++
	if len(R.res.Samples) < 12 && R.r.Intn(400) == 0 {
		s := line
		if len(s) > 400 {
			s = s[:400] + "..."
		}
		R.res.Samples = append(R.res.Samples, s)
	}
}

func rulesHexName(b []byte) string {
	if len(b) == 0 {
		return "_"
	}
	return hex.EncodeToString(b)
}

func rulesB01(b bool) string {
	if b {
		return "1"
	}
	return "0"
}

// ---------------------------------------------------------------- part A: governance

func (R *rulesRun) partA(n int) {
	r := R.r
	st, err := state.NewState(0, db.NewMemDB(), nil, 1, 1, 0)
	if err != nil {
		panic(err)
	}
	height := uint64(1000)
	for it := 0; it < n; it++ {
		// threshold, incl. exact two thirds ± 1
		tot := posBig(r, 30)
		vot := new(big.Int).Rand(r, new(big.Int).Add(tot, big.NewInt(1)))
		switch r.Intn(4) {
		case 0:
			tot = new(big.Int).Mul(posBig(r, 28), big.NewInt(3))
			vot = new(big.Int).Div(new(big.Int).Mul(tot, big.NewInt(2)), big.NewInt(3))
			vot.Add(vot, big.NewInt(int64(r.Intn(3)-1)))
			R.dist["two3.exact±1"]++
		case 1:
			vot = new(big.Int).Div(new(big.Int).Mul(tot, big.NewInt(2)), big.NewInt(3))
			vot.Add(vot, big.NewInt(int64(r.Intn(3)-1)))
			R.dist["two3.floor±1"]++
		}
		got := fmt.Sprint(minter.VerifIsMoreThanTwoThirds(vot, tot))
		R.emit("two3", []string{vot.String(), tot.String()}, got)
		R.emit("two3code", []string{vot.String(), tot.String()}, got)

		// validators and calculatePowers
		st.Validators.SetValidators(nil)
		k := 1 + r.Intn(8)
		shape := r.Intn(5)
		base := posBig(r, 27)
		var pks []types.Pubkey
		statuses := map[types.TmAddress]int8{}
		var valArgs []string
		for i := 0; i < k; i++ {
			var pk types.Pubkey
			r.Read(pk[:])
			pks = append(pks, pk)
			var stake *big.Int
			switch shape {
			case 0: // equal powers
				stake = new(big.Int).Set(base)
			case 1: // neighbours at a large scale
				stake = new(big.Int).Add(base, big.NewInt(int64(r.Intn(3))))
			case 2:
				stake = big.NewInt(int64(r.Intn(4)))
			default:
				stake = randBig(r, 27)
			}
			st.Validators.Create(pk, stake)
		}
		R.dist[fmt.Sprintf("powers.shape%d", shape)]++
		vals := st.Validators.GetValidators()
		for _, v := range vals {
			toDrop, present := false, true
			if r.Intn(6) == 0 {
				keepStake := v.GetTotalBipStake()
				st.Validators.PunishByzantineValidator(v.GetAddress())
				if r.Intn(2) == 0 {
					v.SetTotalBipStake(keepStake) // dropped by absence keeps its stake
				}
				toDrop = true
			}
			switch r.Intn(8) {
			case 0:
				statuses[v.GetAddress()] = minter.ValidatorAbsent
				present = false
			case 1: // not in the commit at all
				present = false
			default:
				statuses[v.GetAddress()] = minter.ValidatorPresent
			}
			valArgs = append(valArgs, fmt.Sprintf("%x:%s:%s:%s", v.PubKey[:], v.GetTotalBipStake(), rulesB01(toDrop), rulesB01(present)))
		}
		powers, total := minter.VerifCalculatePowers(vals, statuses)
		var pparts []string
		for _, v := range vals {
			if p, ok := powers[v.PubKey]; ok {
				pparts = append(pparts, fmt.Sprintf("%x:%s", v.PubKey[:], p))
			}
		}
		pstr := "-"
		if len(pparts) > 0 {
			pstr = strings.Join(pparts, ",")
		}
		R.emit("calcpowers", []string{strings.Join(valArgs, ",")}, pstr+";"+total.String())

		// votes: candidates = validators + two outsiders; a random partition into proposals
		var outs []types.Pubkey
		for i := 0; i < 2; i++ {
			var pk types.Pubkey
			r.Read(pk[:])
			outs = append(outs, pk)
		}
		univ := append(append([]types.Pubkey{}, pks...), outs...)
		malformed := r.Intn(10) == 0 && shape == 2
		if malformed {
			R.dist["votes.malformed(duplicates)"]++
		}
		ties := r.Intn(4) == 0
		mkProps := func(names [][]byte) [][]types.Pubkey {
			perm := r.Perm(len(univ))
			lists := make([][]types.Pubkey, len(names))
			if ties && len(names) >= 2 { // equal support for every proposal (ties: the first one stored wins)
				R.dist["votes.ties"]++
				for x, i := range perm {
					if x >= (len(univ)/len(names))*len(names) {
						break
					}
					lists[x%len(names)] = append(lists[x%len(names)], univ[i])
				}
				return lists
			}
			for _, i := range perm {
				if len(names) == 0 || r.Intn(4) == 0 {
					continue // did not vote
				}
				j := r.Intn(len(names))
				if r.Intn(3) != 0 {
					j = 0 // skew towards one proposal so that it can pass
				}
				lists[j] = append(lists[j], univ[i])
				if malformed && r.Intn(3) == 0 {
					lists[r.Intn(len(names))] = append(lists[r.Intn(len(names))], univ[i])
				}
			}
			return lists
		}
		height++
		// halt
		{
			lists := mkProps([][]byte{{1}})
			var hs []string
			for _, pk := range lists[0] {
				st.Halts.AddHaltBlock(height, pk)
				hs = append(hs, fmt.Sprintf("%x", pk[:]))
			}
			halt, _, _, _ := minter.VerifTallies(st, powers, total, height)
			a := "-"
			if len(hs) > 0 {
				a = strings.Join(hs, "|")
			}
			R.emit("tallyhalt", []string{pstr, total.String(), a}, fmt.Sprint(halt))
			if halt {
				R.dist["halt.passed"]++
			}
		}
		// commission and version proposals (texts are opaque to the tally)
		for kind := 0; kind < 2; kind++ {
			np := r.Intn(4)
			var names [][]byte
			for i := 0; i < np; i++ {
				nm := make([]byte, 1+r.Intn(6))
				r.Read(nm)
				if kind == 1 {
					nm = []byte(fmt.Sprintf("v%d_%d", it, i))
				}
				if r.Intn(25) == 0 {
					nm = nil // empty text
					R.dist["proposal.empty-text"]++
				}
				dup := false
				for _, o := range names {
					if string(o) == string(nm) {
						dup = true
					}
				}
				if !dup {
					names = append(names, nm)
				}
			}
			lists := mkProps(names)
			// the store keeps proposals in order of their first vote and voters in arrival order: replay that
			type ev struct {
				p  int
				pk types.Pubkey
			}
			var evs []ev
			for p, l := range lists {
				for _, pk := range l {
					evs = append(evs, ev{p, pk})
				}
			}
			r.Shuffle(len(evs), func(i, j int) { evs[i], evs[j] = evs[j], evs[i] })
			var order []int
			stored := map[int][]types.Pubkey{}
			for _, e := range evs {
				if _, ok := stored[e.p]; !ok {
					order = append(order, e.p)
				}
				stored[e.p] = append(stored[e.p], e.pk)
				if kind == 0 {
					st.Commission.AddVote(height, e.pk, names[e.p])
				} else {
					st.Updates.AddVote(height, e.pk, string(names[e.p]))
				}
			}
			var parts []string
			for _, p := range order {
				var ks []string
				for _, pk := range stored[p] {
					ks = append(ks, fmt.Sprintf("%x", pk[:]))
				}
				parts = append(parts, rulesHexName(names[p])+":"+strings.Join(ks, "|"))
			}
			a := "-"
			if len(parts) > 0 {
				a = strings.Join(parts, ";")
			}
			_, prices, version, vok := minter.VerifTallies(st, powers, total, height)
			if kind == 0 {
				out := "none"
				if len(prices) != 0 {
					out = hex.EncodeToString(prices)
					R.dist["commission.passed"]++
				}
				R.emit("tallycom", []string{pstr, total.String(), a}, out)
			} else {
				out := "none"
				if vok {
					out = hex.EncodeToString([]byte(version))
					if version == "" {
						out = ""
					}
					R.dist["version.passed"]++
				}
				R.emit("tallyver", []string{pstr, total.String(), a}, out)
			}
			R.dist[fmt.Sprintf("proposals.%d", len(order))]++
		}
	}
}

// ---------------------------------------------------------------- part B: price of each type

var rulesPriceFields = []string{"PayloadByte", "Send", "BuyBancor", "SellBancor", "SellAllBancor", "BuyPoolBase", "BuyPoolDelta",
	"SellPoolBase", "SellPoolDelta", "SellAllPoolBase", "SellAllPoolDelta", "CreateTicker3", "CreateTicker4", "CreateTicker5",
	"CreateTicker6", "CreateTicker7to10", "CreateCoin", "CreateToken", "RecreateCoin", "RecreateToken", "DeclareCandidacy",
	"Delegate", "Unbond", "RedeemCheck", "SetCandidateOn", "SetCandidateOff", "CreateMultisig", "MultisendBase", "MultisendDelta",
	"EditCandidate", "SetHaltBlock", "EditTickerOwner", "EditMultisig", "EditCandidatePublicKey", "CreateSwapPool", "AddLiquidity",
	"RemoveLiquidity", "EditCandidateCommission", "BurnToken", "MintToken", "VoteCommission", "VoteUpdate", "FailedTx",
	"AddLimitOrder", "RemoveLimitOrder", "MoveStake", "LockStake", "Lock"}

// rulesRandTable fills every *big.Int field of commission.Price (in struct order) with a generated value, zeros included.
func rulesRandTable(r *rand.Rand) (*commission.Price, string) {
	p := &commission.Price{}
	if r.Intn(3) == 0 {
		p.Coin = types.CoinID(1 + r.Intn(2000))
	}
	parts := []string{fmt.Sprint(uint32(p.Coin))}
	pv := reflect.ValueOf(p).Elem()
	mode := r.Intn(4)
	for _, name := range rulesPriceFields {
		var v *big.Int
		switch {
		case mode == 0 && r.Intn(3) == 0:
			v = big.NewInt(0)
		case mode == 1: // distinct small primes-like values: a wrong field shows up
			v = big.NewInt(int64(1000 + r.Intn(1000000)))
		default:
			v = randBig(r, 22)
		}
		pv.FieldByName(name).Set(reflect.ValueOf(v))
		parts = append(parts, v.String())
	}
	return p, strings.Join(parts, ",")
}

func (R *rulesRun) partB(n int) {
	r := R.r
	// sanity: the generator's field list is the struct's *big.Int field list, in order
	{
		t := reflect.TypeOf(commission.Price{})
		var names []string
		for i := 0; i < t.NumField(); i++ {
			if t.Field(i).Type == reflect.TypeOf((*big.Int)(nil)) {
				names = append(names, t.Field(i).Name)
			}
		}
		if strings.Join(names, ",") != strings.Join(rulesPriceFields, ",") {
			R.sink.Fails = append(R.sink.Fails, "FAIL kernel typeprice: commission.Price fields changed: "+strings.Join(names, ","))
			return
		}
	}
	for it := 0; it < n; it++ {
		price, tbl := rulesRandTable(r)
		for _, t := range allTypes {
			nList := 0
			symLen := 0
			var data tx.Data
			sel, ok := tx.GetDataV3(t)
			if !ok {
				R.sink.Fails = append(R.sink.Fails, fmt.Sprintf("FAIL kernel typeprice: GetDataV3 does not know type %d", t))
				continue
			}
			switch t {
			case tx.TypeMultisend:
				nList = []int{0, 1, 2, 3, 100}[r.Intn(5)]
				if r.Intn(2) == 0 {
					nList = 1 + r.Intn(100)
				}
				data = &tx.MultisendData{List: make([]tx.MultisendDataItem, nList)}
			case tx.TypeSellSwapPool:
				nList = []int{0, 1, 2, 3, 4, 5}[r.Intn(6)]
				data = &tx.SellSwapPoolDataV260{Coins: make([]types.CoinID, nList)}
			case tx.TypeBuySwapPool:
				nList = []int{0, 1, 2, 3, 4, 5}[r.Intn(6)]
				data = &tx.BuySwapPoolDataV260{Coins: make([]types.CoinID, nList)}
			case tx.TypeSellAllSwapPool:
				nList = []int{0, 1, 2, 3, 4, 5}[r.Intn(6)]
				data = &tx.SellAllSwapPoolDataV260{Coins: make([]types.CoinID, nList)}
			case tx.TypeCreateCoin, tx.TypeCreateToken:
				symLen = r.Intn(11)
				sym := make([]byte, symLen)
				for i := range sym {
					sym[i] = byte('A' + r.Intn(26))
				}
				if r.Intn(10) == 0 { // longer than the field: truncated to 10 bytes
					sym = []byte("ABCDEFGHIJKLMN"[:11+r.Intn(3)])
					symLen = 10
				}
				if t == tx.TypeCreateCoin {
					data = &tx.CreateCoinData{Symbol: types.StrToCoinSymbol(string(sym))}
				} else {
					data = &tx.CreateTokenData{Symbol: types.StrToCoinSymbol(string(sym))}
				}
				R.dist[fmt.Sprintf("symlen.%d", symLen)]++
			default:
				data = sel
			}
			if reflect.TypeOf(data) != reflect.TypeOf(sel) {
				R.sink.Fails = append(R.sink.Fails, fmt.Sprintf("FAIL kernel typeprice: GetDataV3(%d) selects %T, the harness built %T", t, sel, data))
				continue
			}
			if data.TxType() != t {
				R.sink.Fails = append(R.sink.Fails, fmt.Sprintf("FAIL kernel typeprice: %T reports type %d, expected %d", data, data.TxType(), t))
			}
			R.emit("typeprice", []string{fmt.Sprint(int(t)), fmt.Sprint(nList), fmt.Sprint(symLen), tbl},
				safe(func() string { return data.CommissionData(price).String() }))
			gp := uint32(1 + r.Intn(3))
			switch r.Intn(6) {
			case 0:
				gp = 0
			case 1:
				gp = uint32(r.Uint32())
			}
			pl := []int{0, 0, 1, 1023, 10000}[r.Intn(5)]
			if r.Intn(2) == 0 {
				pl = r.Intn(10001)
			}
			sl := []int{0, 0, 1, 128}[r.Intn(4)]
			t0 := &tx.Transaction{GasPrice: gp, Type: t, Payload: make([]byte, pl), ServiceData: make([]byte, sl)}
			t0.SetDecodedData(data)
			R.emit("txprice", []string{fmt.Sprint(gp), fmt.Sprint(int(t)), fmt.Sprint(nList), fmt.Sprint(symLen), fmt.Sprint(pl), fmt.Sprint(sl), tbl},
				safe(func() string { return t0.MulGasPrice(t0.Price(price)).String() }))
			if sc, ok := data.(interface {
				PayForSymbol(*commission.Price) *big.Int
			}); ok {
				R.emit("symprice", []string{fmt.Sprint(gp), fmt.Sprint(symLen), tbl},
					safe(func() string { return t0.MulGasPrice(sc.PayForSymbol(price)).String() }))
			}
		}
		// types GetDataV3 does not know
		for _, t := range []int{0, 0x13, 39, 40 + r.Intn(200)} {
			if _, ok := tx.GetDataV3(tx.TxType(t)); !ok {
				R.emit("typeprice", []string{fmt.Sprint(t), "0", "0", tbl}, "none")
			} else {
				R.sink.Fails = append(R.sink.Fails, fmt.Sprintf("FAIL kernel typeprice: GetDataV3 knows type %d", t))
			}
		}
	}
}

// ---------------------------------------------------------------- parts C and D: a real node

func rulesLogAmount(r *rand.Rand, maxExp int) *big.Int {
	e := r.Intn(maxExp + 1)
	max := new(big.Int).Exp(big.NewInt(10), big.NewInt(int64(e)), nil)
	v := new(big.Int).Rand(r, max)
	return v.Add(v, big.NewInt(1))
}

func (R *rulesRun) partCD(seed int64, evals int) {
	r := R.r
	w := NewWorld(seed, GenOpts{})
	gen := w.BuildGenesis()
	if err := gen.Verify(); err != nil {
		R.sink.Fails = append(R.sink.Fails, "FAIL rules genesis: "+err.Error())
		return
	}
	n, err := NewNode(gen, NodeOpts{Period: 12})
	if err != nil {
		R.sink.Fails = append(R.sink.Fails, "FAIL rules node: "+err.Error())
		return
	}
	defer n.Destroy()
	cs := n.App.CurrentState()
	base := cs.Coins().GetCoin(0)
	gasCoins := []types.CoinID{0, 1, 2, 3, 4, 5, 1993}
	// part C: route choice
	for i := 0; i < evals && rulesWants("c27"); i++ {
		cid := gasCoins[r.Intn(len(gasCoins))]
		gc := cs.Coins().GetCoin(cid)
		inBase := rulesLogAmount(r, 24)
		if r.Intn(20) == 0 {
			inBase = big.NewInt(0)
		}
		sw := cs.Swap().GetSwapper(cid, 0)
		poolQ, resQ := "-", "-"
		if !cid.IsBaseCoin() && inBase.Sign() != 0 {
			if sw.Exists() {
				func() {
					defer func() { recover() }()
					resp, coms, _ := tx.CheckSwap(sw, gc, base, coins.MaxCoinSupply(), inBase, true)
					if resp == nil && coms != nil && coms.Sign() == 1 {
						poolQ = coms.String()
					}
				}()
			}
			if gc.BaseOrHasReserve() && tx.CheckReserveUnderflow(gc, inBase) == nil {
				resQ = formula.CalculateSaleAmount(gc.Volume(), gc.Reserve(), gc.Crr(), inBase).String()
			}
		}
		out := safe(func() string {
			com, isPool, errResp := tx.CalculateCommission(cs, sw, gc, inBase)
			if errResp != nil {
				if errResp.Code != 119 {
					return fmt.Sprintf("err%d", errResp.Code)
				}
				return "reject"
			}
			return isPool.String() + "," + com.String()
		})
		R.emit("commission", []string{rulesB01(cid.IsBaseCoin()), inBase.String(), poolQ, resQ}, out)
		if !cid.IsBaseCoin() && inBase.Sign() != 0 {
			rt := out
			if strings.HasPrefix(out, "bancor,") {
				rt = "reserve," + out[7:]
			}
			if out == "reject" {
				rt = "reject,0"
			}
			R.emit("route", []string{poolQ, resQ}, rt)
		}
		R.dist["route."+strings.SplitN(out, ",", 2)[0]+fmt.Sprintf(".coin%d", cid)]++
		// conversion of a table price through the pool (table coin -> base), pairs without orders
		if (cid == 1 || cid == 4 || cid == 1993) && r.Intn(3) == 0 {
			price := rulesLogAmount(r, 24)
			r0, r1 := sw.Reserves()
			got := safe(func() string {
				resp, v, _ := tx.CheckSwap(sw, gc, base, price, big.NewInt(0), false)
				if resp != nil {
					return fmt.Sprintf("err%d", resp.Code)
				}
				if v == nil || v.Sign() != 1 {
					return "err119"
				}
				return v.String()
			})
			R.emit("tobase", []string{fmt.Sprint(uint32(cid)), price.String(), r0.String(), r1.String()}, got)
		}
	}
	// part D: vote transactions in real blocks
	g := &Gen{W: w, N: n, Weights: DefaultWeights()}
	stored := map[string]bool{}
	T := time.Date(2024, 1, 10, 9, 0, 0, 0, time.UTC)
	for b := 0; b < 4 && rulesWants("c20"); b++ {
		h := n.Height + 1
		T = T.Add(5 * time.Second)
		if p := n.Begin(h, T, n.Validators(), nil); p != "" {
			R.sink.Fails = append(R.sink.Fails, "FAIL rules begin: "+p)
			return
		}
		for k := 0; k < 8; k++ {
			ci := r.Intn(len(gen.Candidates))
			cand := gen.Candidates[ci]
			vh := h + uint64(r.Intn(4))
			if r.Intn(4) == 0 {
				vh = h - 1 - uint64(r.Intn(3))
			}
			typ := []tx.TxType{tx.TypeSetHaltBlock, tx.TypeVoteCommission, tx.TypeVoteUpdate}[r.Intn(3)]
			var data interface{}
			switch typ {
			case tx.TypeSetHaltBlock:
				data = tx.SetHaltBlockData{PubKey: cand.PubKey, Height: vh}
			case tx.TypeVoteUpdate:
				data = tx.VoteUpdateDataV230{PubKey: cand.PubKey, Height: vh, Version: []string{"v320", "v330"}[r.Intn(2)]}
			default:
				data = g.voteCommissionData(cand.PubKey, vh, r.Intn(3))
			}
			gt := g.Build(typ, data, cand.OwnerAddress, 0)
			key := fmt.Sprintf("%d:%d:%x", typ, vh, cand.PubKey[:])
			ex := stored[key]
			resp, pan := n.Deliver(gt.Raw)
			if pan != "" {
				R.sink.Fails = append(R.sink.Fails, "FAIL rules deliver: "+pan)
				return
			}
			if resp.Code == 0 {
				stored[key] = true
			}
			R.emit("votecheck", []string{fmt.Sprint(int(typ)), fmt.Sprint(vh), fmt.Sprint(h), rulesB01(ex)}, fmt.Sprint(resp.Code))
			R.dist[fmt.Sprintf("vote.code%d", resp.Code)]++
		}
		if _, p := n.End(h); p != "" {
			R.sink.Fails = append(R.sink.Fails, "FAIL rules end: "+p)
			return
		}
		if _, p := n.Commit(); p != "" {
			R.sink.Fails = append(R.sink.Fails, "FAIL rules commit: "+p)
			return
		}
	}
}

// ---------------------------------------------------------------- part E: UpdatePriceFix

// rulesPriceCount evaluates the expression of UpdatePriceFix literally.
func rulesPriceCount(r0, r1 *big.Int) (v *big.Int, ok bool) {
	defer func() {
		if recover() != nil {
			ok = false
		}
	}()
	fNew := big.NewRat(1, 1).SetFrac(r1, r0)
	v, _ = new(big.Float).Mul(new(big.Float).Mul(mmath.Pow(new(big.Float).SetRat(fNew), big.NewFloat(0.25)), big.NewFloat(350)), big.NewFloat(1e18)).Int(nil)
	return v, true
}

var rulesK350 = new(big.Int).Mul(big.NewInt(350), new(big.Int).Exp(big.NewInt(10), big.NewInt(18), nil))

// rulesExactRoot: ⌊350·10^18·(r1/r0)^(1/4)⌋ by integer arithmetic.
func rulesExactRoot(r0, r1 *big.Int) *big.Int {
	k4 := new(big.Int).Exp(rulesK350, big.NewInt(4), nil)
	q := new(big.Int).Div(new(big.Int).Mul(k4, r1), r0)
	s := new(big.Int).Sqrt(q)
	return s.Sqrt(s)
}

func (R *rulesRun) notePC(r0, r1, pc *big.Int) {
	if r0.Sign() <= 0 || r1.Sign() < 0 {
		return
	}
	ex := rulesExactRoot(r0, r1)
	d := new(big.Int).Abs(new(big.Int).Sub(pc, ex))
	if d.Cmp(&R.maxDev) > 0 {
		R.maxDev.Set(d)
	}
	if ex.Sign() > 0 {
		fd, _ := new(big.Float).SetInt(d).Float64()
		fe, _ := new(big.Float).SetInt(ex).Float64()
		if fd/fe > R.maxRel {
			R.maxRel = fd / fe
		}
	}
}

func rulesPriceState(adb *appdb.AppDB) string {
	t, r0, r1, last, off := adb.GetPrice()
	if t.IsZero() {
		return "-,0,0,0,0"
	}
	return fmt.Sprintf("%d,%s,%s,%s,%s", t.UnixNano(), r0, r1, last, rulesB01(off))
}

// rulesMulFrac: ⌊v·num/den⌋ (+adj)
func rulesMulFrac(v *big.Int, num, den, adj int64) *big.Int {
	x := new(big.Int).Mul(v, big.NewInt(num))
	x.Div(x, big.NewInt(den))
	return x.Add(x, big.NewInt(adj))
}

func (R *rulesRun) partE(seqs, steps int) {
	r := R.r
	for s := 0; s < seqs; s++ {
		home, _ := os.MkdirTemp(tmpRoot(), "verif-appdb-")
		os.MkdirAll(home+"/data", 0o755)
		adb := appdb.NewAppDB(home, newCfg(home, false, 0))
		T := time.Date(2024, 1, 10, 12, 0, 0, 0, time.UTC)
		// reserves of very different magnitudes: realistic pool (1e23..1e27), tiny, lopsided
		var r0, r1 *big.Int
		switch r.Intn(4) {
		case 0:
			r0, r1 = big.NewInt(int64(1000+r.Intn(100000))), big.NewInt(int64(100+r.Intn(100000)))
		case 1:
			r0, r1 = posBig(r, 33), posBig(r, 33)
		default:
			r0 = new(big.Int).Mul(big.NewInt(int64(100000+r.Intn(900000))), new(big.Int).Exp(big.NewInt(10), big.NewInt(21), nil))
			r1 = new(big.Int).Mul(big.NewInt(int64(1000+r.Intn(90000))), new(big.Int).Exp(big.NewInt(10), big.NewInt(20), nil))
		}
		if r.Intn(3) == 0 { // a genesis-style record: time 0 (1970, not the zero time), nominal reserves
			adb.SetPrice(time.Unix(0, 0).UTC(), big.NewInt(350), big.NewInt(1), bi("74000000000000000000"), r.Intn(4) == 0)
			R.dist["updprice.start-genesis-record"]++
		} else {
			R.dist["updprice.start-empty"]++
		}
		for i := 0; i < steps; i++ {
			T = T.Add(time.Duration(1+r.Intn(30)) * time.Hour)
			move := r.Intn(14)
			switch move {
			case 0: // exactly −10 %: r1 := 9/10 r1 on a multiple of 10
				r1 = new(big.Int).Mul(r1, big.NewInt(10))
				r0 = new(big.Int).Mul(r0, big.NewInt(10))
				r1 = rulesMulFrac(r1, 9, 10, 0)
			case 1: // just above −10 % (−9.99…): still rounds down to −10
				r1 = rulesMulFrac(r1, 9001, 10000, 1)
			case 2: // just below
				r1 = rulesMulFrac(r1, 8999, 10000, 0)
			case 3: // exactly −9 %: r1 := 91/100 r1
				r1 = new(big.Int).Mul(r1, big.NewInt(100))
				r0 = new(big.Int).Mul(r0, big.NewInt(100))
				r1 = rulesMulFrac(r1, 91, 100, 0)
			case 4: // a hair below −9 %
				r1 = new(big.Int).Mul(r1, big.NewInt(100))
				r0 = new(big.Int).Mul(r0, big.NewInt(100))
				r1 = rulesMulFrac(r1, 91, 100, -1)
			case 5, 6, 7, 8: // unchanged price (recovery steps)
			case 9: // same price, different reserves
				m := int64(2 + r.Intn(5))
				r0, r1 = new(big.Int).Mul(r0, big.NewInt(m)), new(big.Int).Mul(r1, big.NewInt(m))
			case 10: // big drop / big rise
				if r.Intn(2) == 0 {
					r1 = rulesMulFrac(r1, int64(1+r.Intn(80)), 100, 0)
				} else {
					r1 = rulesMulFrac(r1, int64(100+r.Intn(400)), 100, 0)
				}
			case 11: // trade-like: r0 up, r1 down keeping the product
				x := rulesMulFrac(r0, int64(1+r.Intn(80)), 1000, 0)
				k := new(big.Int).Mul(r0, r1)
				r0 = new(big.Int).Add(r0, x)
				r1 = new(big.Int).Div(k, r0)
			case 12:
				r0 = rulesMulFrac(r0, int64(90+r.Intn(25)), 100, 0)
			case 13:
				if r.Intn(6) == 0 {
					r1 = big.NewInt(0) // empty side: next update divides by a zero price
					R.dist["updprice.zero-r1"]++
				} else if r.Intn(6) == 0 {
					r0 = big.NewInt(0)
					R.dist["updprice.zero-r0"]++
				}
			}
			if r1.Sign() < 0 {
				r1 = big.NewInt(0)
			}
			if r.Intn(60) == 0 { // malformed: a negative reserve (math.Pow panics on a negative base)
				r1 = big.NewInt(-int64(1 + r.Intn(1000)))
				R.dist["updprice.negative-r1"]++
			}
			if len(r0.String()) > 60 || len(r1.String()) > 60 { // keep magnitudes bounded
				r0 = new(big.Int).Div(r0, new(big.Int).Exp(big.NewInt(10), big.NewInt(30), nil))
				r1 = new(big.Int).Div(r1, new(big.Int).Exp(big.NewInt(10), big.NewInt(30), nil))
				r0.Add(r0, big.NewInt(1))
				r1.Add(r1, big.NewInt(1))
			}
			R.dist[fmt.Sprintf("updprice.move%d", move)]++
			before := rulesPriceState(adb)
			pc, pcOk := rulesPriceCount(r0, r1)
			pcs := "0"
			if pcOk {
				pcs = pc.String()
			}
			a0, a1 := new(big.Int).Set(r0), new(big.Int).Set(r1)
			out := safe(func() string {
				rw, sf := adb.UpdatePriceFix(T, a0, a1)
				return fmt.Sprintf("%s;%s;%s", rulesPriceState(adb), rw, sf)
			})
			R.emit("updprice", []string{before, fmt.Sprint(T.UnixNano()), r0.String(), r1.String(), pcs}, out)
			if out == "panic" {
				R.dist["updprice.panic"]++
				if r0.Sign() == 0 {
					r0 = big.NewInt(int64(1000 + r.Intn(1000)))
				}
				if r1.Sign() < 0 {
					r1 = big.NewInt(int64(1000 + r.Intn(1000)))
				}
				if _, _, s1, _, _ := adb.GetPrice(); s1 != nil && s1.Sign() == 0 && r.Intn(3) != 0 {
					break // the stored record has a zero price: every further update panics; start over (after a few repeats)
				}
				continue
			}
			if strings.Contains(out, ";0;") {
				R.dist["updprice.reward-zero"]++
			}
			if pcOk && r0.Sign() > 0 {
				R.emit("pricecert", []string{r0.String(), r1.String(), pcs}, "true")
				R.notePC(r0, r1, pc)
			}
		}
		adb.Close()
		os.RemoveAll(home)
	}
}

// ---------------------------------------------------------------- part F: window and emission on a real node

func (R *rulesRun) partF(seed int64, blocks int, variant int) {
	r := R.r
	period := []uint64{2, 3, 4, 6}[r.Intn(4)]
	opts := GenOpts{NoFrozen: true}
	capV := bi("10000000000000000000000000000")
	if variant%2 == 1 { // start close to the cap so that it is reached during the run
		opts.Emission = new(big.Int).Sub(capV, pip(int64(200+r.Intn(2000)))).String()
		R.dist["window.near-cap-run"]++
	}
	w := NewWorld(seed, opts)
	gen := w.BuildGenesis()
	if variant%3 == 2 {
		gen.PrevReward = types.RewardPrice{Time: uint64(time.Date(2024, 1, 10, 8, 0, 0, 0, time.UTC).UnixNano()), AmountBIP: gen.Pools[0].Reserve0, AmountUSDT: gen.Pools[0].Reserve1, Off: r.Intn(2) == 0, Reward: "20000000000000000000"}
	}
	if err := gen.Verify(); err != nil {
		R.sink.Fails = append(R.sink.Fails, "FAIL rules genesis: "+err.Error())
		return
	}
	n, err := NewNode(gen, NodeOpts{Period: period})
	if err != nil {
		R.sink.Fails = append(R.sink.Fails, "FAIL rules node: "+err.Error())
		return
	}
	defer n.Destroy()
	g := &Gen{W: w, N: n, Weights: DefaultWeights()}
	adb := n.App.VerifAppDB()
	T := time.Date(2024, 1, 10, 9, 0, 0, 0, time.UTC)
	zero := types.Address{}
	for b := 0; b < blocks; b++ {
		h := n.Height + 1
		// block time: mostly steady; period-start blocks get times around the window edges
		if h%period == 1 || r.Intn(6) == 0 {
			switch r.Intn(6) {
			case 0: // to the next 12:00:00 exactly
				T = time.Date(T.Year(), T.Month(), T.Day(), 12, 0, 0, 0, time.UTC).Add(24 * time.Hour)
			case 1: // 14:59:59.999999999 of the next day
				T = time.Date(T.Year(), T.Month(), T.Day(), 14, 59, 59, 999999999, time.UTC).Add(24 * time.Hour)
			case 2: // 15:00:00 / 11:59:59 (just outside)
				if r.Intn(2) == 0 {
					T = time.Date(T.Year(), T.Month(), T.Day(), 15, 0, 0, 0, time.UTC).Add(24 * time.Hour)
				} else {
					T = time.Date(T.Year(), T.Month(), T.Day(), 11, 59, 59, 0, time.UTC).Add(24 * time.Hour)
				}
			case 3: // exactly 3 h (not more) or 3 h + 1 ns after the last update
				lt, _, _, _, _ := adb.GetPrice()
				if !lt.IsZero() && lt.Year() > 2000 {
					cand := lt.Add(3*time.Hour + time.Duration(r.Intn(2)))
					if cand.After(T) {
						T = cand
					} else {
						T = T.Add(time.Duration(1+r.Intn(90)) * time.Minute)
					}
				} else {
					T = T.Add(time.Duration(1+r.Intn(90)) * time.Minute)
				}
			default:
				T = T.Add(time.Duration(1+r.Intn(200)) * time.Minute)
			}
		} else {
			T = T.Add(time.Duration(3+r.Intn(8)) * time.Second)
		}
		cs := n.App.CurrentState()
		poolEx := cs.Swap().SwapPoolExist(0, types.USDTID)
		p0, p1 := big.NewInt(0), big.NewInt(0)
		pcs := "0"
		if poolEx {
			p0, p1 = cs.Swap().GetSwapper(0, types.USDTID).Reserves()
			if pc, ok := rulesPriceCount(p0, p1); ok {
				pcs = pc.String()
			}
		}
		stB := rulesPriceState(adb)
		rwB, sfB := cs.App().Reward()
		em := new(big.Int).Set(adb.Emission())
		if p := n.Begin(h, T, n.Validators(), nil); p != "" {
			R.sink.Fails = append(R.sink.Fails, "FAIL rules begin (C28): "+p)
			return
		}
		rwA, sfA := cs.App().Reward()
		stA := rulesPriceState(adb)
		R.emit("beginreward", []string{em.String(), fmt.Sprint(h), fmt.Sprint(period), fmt.Sprint(T.UnixNano()), rulesB01(poolEx), p0.String(), p1.String(), pcs,
			stB, rwB.String() + "," + sfB.String()}, fmt.Sprintf("%s;%s,%s", stA, rwA, sfA))
		lt := "-"
		if f := strings.SplitN(stB, ",", 2)[0]; f != "-" {
			lt = f
		}
		if poolEx && em.Cmp(capV) < 0 { // then the stored price record changes exactly when the window predicate holds
			R.emit("window", []string{fmt.Sprint(h), fmt.Sprint(period), fmt.Sprint(T.UnixNano()), lt}, fmt.Sprint(stA != stB))
		}
		if stA != stB {
			R.dist["window.updated"]++
			if rwA.Sign() == 0 {
				R.dist["window.updated-reward-zero"]++
			}
		} else if h%period == 1 {
			R.dist["window.period-start-not-updated"]++
		}
		if em.Cmp(capV) >= 0 {
			R.dist["window.at-cap"]++
		}
		// a trade on the BIP/USDT pool now and then moves the price (also by more than 10 %)
		txs := 0
		if r.Intn(3) == 0 && poolEx {
			s := w.Addrs[r.Intn(len(w.Addrs))]
			var data tx.SellSwapPoolDataV260
			if r.Intn(3) != 0 {
				bal := cs.Accounts().GetBalance(s, 0)
				amt := rulesMulFrac(p0, int64(1+r.Intn(70)), 1000, 0)
				if amt.Cmp(bal) > 0 {
					amt = rulesMulFrac(bal, 1, 2, 0)
				}
				data = tx.SellSwapPoolDataV260{Coins: []types.CoinID{0, types.USDTID}, ValueToSell: amt, MinimumValueToBuy: big.NewInt(1)}
			} else {
				bal := cs.Accounts().GetBalance(s, types.USDTID)
				data = tx.SellSwapPoolDataV260{Coins: []types.CoinID{types.USDTID, 0}, ValueToSell: rulesMulFrac(bal, int64(1+r.Intn(9)), 10, 0), MinimumValueToBuy: big.NewInt(1)}
			}
			if data.ValueToSell.Sign() > 0 {
				gt := g.Build(tx.TypeSellSwapPool, data, s, 0)
				if _, pan := n.Deliver(gt.Raw); pan != "" {
					R.sink.Fails = append(R.sink.Fails, "FAIL rules deliver (C28): "+pan)
					return
				}
				txs++
			}
		}
		// EndBlock: emission and the withheld part
		accB := big.NewInt(0)
		for _, v := range cs.Validators().GetValidators() {
			accB.Add(accB, v.GetAccumReward())
		}
		slB := new(big.Int).Set(cs.App().GetTotalSlashed())
		zB := cs.Accounts().GetBalance(zero, 0)
		emB := new(big.Int).Set(adb.Emission())
		if _, p := n.End(h); p != "" {
			R.sink.Fails = append(R.sink.Fails, "FAIL rules end (C28): "+p)
			return
		}
		emA := adb.Emission()
		if h%period != 0 && txs == 0 {
			accA := big.NewInt(0)
			for _, v := range cs.Validators().GetValidators() {
				accA.Add(accA, v.GetAccumReward())
			}
			toVals := new(big.Int).Sub(accA, accB)
			toVals.Add(toVals, new(big.Int).Sub(cs.App().GetTotalSlashed(), slB))
			toZero := new(big.Int).Sub(cs.Accounts().GetBalance(zero, 0), zB)
			minted := new(big.Int).Add(toVals, toZero)
			R.emit("emitcap", []string{emB.String(), capV.String(), rwA.String(), sfA.String()}, fmt.Sprintf("%s,%s,%s,%s", toVals, minted, toZero, emA))
			R.emit("emit", []string{emB.String(), rwA.String(), sfA.String()}, fmt.Sprintf("%s,%s,%s", minted, toZero, emA))
			if toZero.Sign() > 0 {
				R.dist["emit.withheld-burned"]++
			}
			if minted.Sign() == 0 {
				R.dist["emit.nothing-minted"]++
			}
		}
		if _, p := n.Commit(); p != "" {
			R.sink.Fails = append(R.sink.Fails, "FAIL rules commit (C28): "+p)
			return
		}
	}
}

// ---------------------------------------------------------------- part G: the ticker fee on a real node

func rulesTableOf(c *commission.Price) string {
	parts := []string{fmt.Sprint(uint32(c.Coin))}
	pv := reflect.ValueOf(c).Elem()
	for _, name := range rulesPriceFields {
		parts = append(parts, pv.FieldByName(name).Interface().(*big.Int).String())
	}
	return strings.Join(parts, ",")
}

// partG delivers CreateCoin / CreateToken transactions (tickers of every length, gas price 0..3, one ticker price zero) and
// compares the burned ticker fee — or the error the success path answers — with the model.
func (R *rulesRun) partG(seed int64, txs int) {
	r := R.r
	w := NewWorld(seed, GenOpts{NoFrozen: true})
	gen := w.BuildGenesis()
	switch r.Intn(3) {
	case 0:
		gen.Commission.CreateTicker7_10 = "0"
	case 1:
		gen.Commission.CreateTicker5 = "0"
	}
	gen.Commission.CreateTicker3 = "3000000000000000000"
	gen.Commission.CreateTicker4 = "2000000000000000000"
	if err := gen.Verify(); err != nil {
		R.sink.Fails = append(R.sink.Fails, "FAIL rules genesis: "+err.Error())
		return
	}
	n, err := NewNode(gen, NodeOpts{Period: 12})
	if err != nil {
		R.sink.Fails = append(R.sink.Fails, "FAIL rules node: "+err.Error())
		return
	}
	defer n.Destroy()
	g := &Gen{W: w, N: n, Weights: DefaultWeights()}
	h := n.Height + 1
	if p := n.Begin(h, time.Date(2024, 1, 10, 9, 0, 0, 0, time.UTC), n.Validators(), nil); p != "" {
		R.sink.Fails = append(R.sink.Fails, "FAIL rules begin: "+p)
		return
	}
	cs := n.App.CurrentState()
	tbl := rulesTableOf(cs.Commission().GetCommissions())
	for k := 0; k < txs; k++ {
		symLen := 3 + r.Intn(8)
		sym := make([]byte, symLen)
		for i := range sym {
			sym[i] = byte('A' + r.Intn(26))
		}
		if cs.Coins().ExistsBySymbol(types.StrToCoinSymbol(string(sym))) {
			continue
		}
		s := w.Addrs[r.Intn(len(w.Addrs))]
		gp := uint32(r.Intn(4))
		var typ tx.TxType
		var data interface{}
		if r.Intn(2) == 0 {
			typ = tx.TypeCreateToken
			data = tx.CreateTokenData{Name: "t", Symbol: types.StrToCoinSymbol(string(sym)), InitialAmount: pip(1000), MaxSupply: pip(100000), Mintable: true, Burnable: true}
		} else {
			typ = tx.TypeCreateCoin
			data = tx.CreateCoinData{Name: "c", Symbol: types.StrToCoinSymbol(string(sym)), InitialAmount: pip(1000), InitialReserve: pip(10000), ConstantReserveRatio: 50, MaxSupply: pip(100000)}
		}
		gt := g.Build(typ, data, s, 0, func(t0 *tx.Transaction) { t0.GasPrice = gp })
		existed := cs.Coins().ExistsBySymbol(types.StrToCoinSymbol(string(sym)))
		resp, pan := n.Deliver(gt.Raw)
		if pan != "" {
			R.sink.Fails = append(R.sink.Fails, "FAIL rules deliver (ticker): "+pan)
			return
		}
		created := !existed && cs.Coins().ExistsBySymbol(types.StrToCoinSymbol(string(sym)))
		out := fmt.Sprintf("err%d", resp.Code)
		if resp.Code == 0 {
			out = tagsOf(resp.Events)["tx.burned_for_symbol"]
			if out == "" {
				out = "skip" // no positive ticker fee: the burn is skipped (/repo f0b1597), the transaction is not rejected
			}
		}
		if !created && resp.Code != 0 {
			R.dist["ticker.run-failed"]++
			continue // the handler itself refused (funds …): the success path was not reached
		}
		R.emit("tickerburn", []string{fmt.Sprint(gp), fmt.Sprint(symLen), "0", "0", tbl}, out)
		if resp.Code != 0 && created {
			R.dist["ticker.code119-but-applied(R1)"]++ // must stay 0 since /repo f0b1597 (the model answers "skip": a mismatch)
		} else if out == "skip" {
			R.dist["ticker.burn-skipped"]++
		} else {
			R.dist["ticker.burned"]++
		}
	}
	n.End(h)
	n.Commit()
}
