package main

// C12 — Bancor conversions follow the bonding-curve formulas.
//
// Translation validation per input: the real formula.Calculate{SaleReturn,PurchaseReturn,PurchaseAmount,SaleAmount} are
// called on generated inputs and every result is judged by the Lean certificate (lean/MinterModel/Bancor.lean,
// exact big-integer arithmetic, tolerance fixed in Lean: `saleReturnTol` &c.) through lines
//
//	Q saleReturnCert v R c a r = true          (and purchaseReturnCert, purchaseAmountCert, saleAmountCert)
//	Q bancorMono <fn> v R c a a' r r' = ok      (result must not decrease when the amount grows)
//	Q bancorSellAll v R c r = ok                (selling the whole supply returns exactly the reserve)
//	Q bancorRoundTrip v R c d r s = ok          (buy r for d, sell r at (v+r, R+d): s ≤ d + tolerance)
//	Q bancorRoundTripAmount v R c w p s = ok    (buy exactly w for p, sell w at (v+w, R+p): s ≤ p + tolerance)
//
// The theorems in lean/MinterProofs/Props/C12.lean show that every certified result has the properties C12 demands.
//
// Domain (how the node calls the functions, coreV2/transaction/{buy_coin,sell_coin,sell_all_coin}.go, CalculateCommission,
// candidates/frozenfunds slashing): supply ≥ 1 pip (≥ 10^18 at creation), reserve ≥ 10^22 pip (minCoinReserve, enforced after
// every sale by CheckReserveUnderflow), crr 10..100, sale amount ≤ supply (CalculateSaleReturnAndCheck), wanted reserve ≤ reserve
// (CalculateSaleAmountAndCheck) or ≤ reserve − 10^22 (commissionFromReserve), supply + bought ≤ maxSupply ≤ 10^33.
// Class "reach" = those guards hold; class "wide" = the property's quantifier (all positive magnitudes up to 10^33,
// amounts inside the mathematical domain of the formula); class "degenerate" = supply 0 / reserve 0 / amount beyond the
// supply or the reserve — the formulas are undefined there, what the Go code does is reported as findings (Notes), never judged.
//
// Measured error of the float pipeline against the exact floor of the real formula (tier "measure", seed 11, n 420000,
// 701 225 results): |go − floor| ≤ result·2^-53.02 + R·2^-97.7 (saleReturn), result·2^-47.8 + v·2^-99 (purchaseReturn),
// result·2^-43.88 + R·2^-96.3 (purchaseAmount), result·2^-53.2 + (v·R/(R−w))·2^-99.75 (saleAmount).  The relative part comes from
// the exponent being a float64 (100/float64(crr)); the absolute part from the 100-bit mantissa.  The tolerances fixed in
// Bancor.lean are these maxima × 1000 rounded up to a power of two; they are never tuned at run time.
//
// Known finding (reported as violations `sale-return-exceeds-reserve(reserve>2^100)` / `non-monotone-at-whole-supply(reserve>2^100)`):
// for reserves above 2^100 pip the reserve is rounded to 100 bits, and a sale of almost the whole supply returns the reserve
// rounded *up*, i.e. more than the reserve (by < 2^-100·R ≤ 1024 pip) and more than selling the whole supply.

import (
	"fmt"
	"math"
	"math/big"
	"math/rand"
	"os"
	"runtime"
	"sort"
	"strings"
	"sync"
	"time"

	"github.com/MinterTeam/minter-go-node/formula"
	bmath "github.com/MinterTeam/minter-go-node/math"
)

const (
	fnSaleReturn     = "saleReturn"
	fnPurchaseReturn = "purchaseReturn"
	fnPurchaseAmount = "purchaseAmount"
	fnSaleAmount     = "saleAmount"
)

var bancorFns = []string{fnSaleReturn, fnPurchaseReturn, fnPurchaseAmount, fnSaleAmount}

var (
	bOne    = big.NewInt(1)
	bTen33  = new(big.Int).Exp(big.NewInt(10), big.NewInt(33), nil)
	bMinRes = new(big.Int).Exp(big.NewInt(10), big.NewInt(22), nil) // 10 000 BIP
)

type bancorIn struct {
	fn    string
	v, R  *big.Int
	c     uint32
	x     *big.Int
	shape string
}

func (in bancorIn) String() string {
	return fmt.Sprintf("%s v=%s R=%s c=%d x=%s", in.fn, in.v, in.R, in.c, in.x)
}

// reach: the guards of the transaction handlers hold for this input.
func (in bancorIn) reach() bool {
	if in.v.Sign() <= 0 || in.R.Cmp(bMinRes) < 0 || in.c < 10 || in.c > 100 || in.x.Sign() < 0 {
		return false
	}
	if in.v.Cmp(bTen33) > 0 {
		return false
	}
	switch in.fn {
	case fnSaleReturn:
		return in.x.Cmp(in.v) <= 0
	case fnSaleAmount:
		return in.x.Cmp(in.R) <= 0
	case fnPurchaseAmount:
		return new(big.Int).Add(in.v, in.x).Cmp(bTen33) <= 0
	}
	return true
}

// inDomain: the real formula is defined (positive supply and reserve, amount inside [0, supply] resp. [0, reserve]).
func (in bancorIn) inDomain() bool {
	if in.v.Sign() <= 0 || in.R.Sign() <= 0 || in.x.Sign() < 0 || in.c == 0 {
		return false
	}
	switch in.fn {
	case fnSaleReturn:
		return in.x.Cmp(in.v) <= 0
	case fnSaleAmount:
		return in.x.Cmp(in.R) <= 0
	}
	return true
}

// callBancor runs the real code; a panic or a nil result is returned as a description.
func callBancor(fn string, v, R *big.Int, c uint32, x *big.Int) (res *big.Int, bad string) {
	defer func() {
		if r := recover(); r != nil {
			res, bad = nil, strings.ReplaceAll(fmt.Sprint("panic: ", r), " ", "_")
		}
	}()
	switch fn {
	case fnSaleReturn:
		res = formula.CalculateSaleReturn(v, R, c, x)
	case fnPurchaseReturn:
		res = formula.CalculatePurchaseReturn(v, R, c, x)
	case fnPurchaseAmount:
		res = formula.CalculatePurchaseAmount(v, R, c, x)
	case fnSaleAmount:
		res = formula.CalculateSaleAmount(v, R, c, x)
	}
	if res == nil {
		return nil, "nil-result"
	}
	return res, ""
}

/* ---------- generators ---------- */

func pow10(e int) *big.Int { return new(big.Int).Exp(big.NewInt(10), big.NewInt(int64(e)), nil) }

// logUniform: magnitude 10^0 … 10^maxExp, uniform inside the decade.
func logUniform(r *rand.Rand, minExp, maxExp int) *big.Int {
	e := minExp + r.Intn(maxExp-minExp+1)
	lo := pow10(e)
	if e == maxExp {
		return lo
	}
	span := new(big.Int).Mul(lo, big.NewInt(9))
	return lo.Add(lo, new(big.Int).Rand(r, span))
}

func clamp(x, lo, hi *big.Int) *big.Int {
	if x.Cmp(lo) < 0 {
		return new(big.Int).Set(lo)
	}
	if x.Cmp(hi) > 0 {
		return new(big.Int).Set(hi)
	}
	return x
}

// magnitude: a positive integer ≤ 10^33 with boundary shapes.
func magnitude(r *rand.Rand, minExp int) (*big.Int, string) {
	lo := pow10(minExp)
	switch r.Intn(10) {
	case 0: // power of two ± 1
		minBits := int(float64(minExp)*3.33) + 1
		k := minBits + r.Intn(110-minBits)
		v := new(big.Int).Lsh(bOne, uint(k))
		v.Add(v, big.NewInt(int64(r.Intn(3)-1)))
		return clamp(v, lo, bTen33), "2^k±1"
	case 1: // power of ten ± 1
		k := minExp + r.Intn(34-minExp)
		v := pow10(k)
		v.Add(v, big.NewInt(int64(r.Intn(3)-1)))
		return clamp(v, lo, bTen33), "10^k±1"
	case 2:
		return new(big.Int).Set(bTen33), "max"
	case 3:
		return new(big.Int).Add(lo, big.NewInt(int64(r.Intn(3)))), "min"
	}
	return logUniform(r, minExp, 33), "log"
}

func genCRR(r *rand.Rand) uint32 {
	switch r.Intn(8) {
	case 0:
		return []uint32{10, 11, 99, 100, 50, 25, 30, 33}[r.Intn(8)]
	}
	return uint32(10 + r.Intn(91))
}

// amountIn: an amount in [0, top] with adversarial shapes.
func amountIn(r *rand.Rand, top *big.Int) (*big.Int, string) {
	if top.Sign() <= 0 {
		return big.NewInt(0), "zero"
	}
	switch r.Intn(12) {
	case 0:
		return big.NewInt(1), "one"
	case 1:
		return new(big.Int).Sub(top, bOne), "top-1"
	case 2:
		d := logUniform(r, 0, 33)
		return clamp(new(big.Int).Sub(top, d), big.NewInt(0), top), "top-small"
	case 3:
		return new(big.Int).Rsh(top, 1), "half"
	case 4:
		k := r.Intn(top.BitLen() + 1)
		v := new(big.Int).Lsh(bOne, uint(k))
		v.Add(v, big.NewInt(int64(r.Intn(3)-1)))
		return clamp(v, big.NewInt(0), top), "2^k±1"
	case 5, 6, 7:
		return clamp(logUniform(r, 0, 33), big.NewInt(0), top), "log"
	case 8:
		return new(big.Int).Set(top), "top"
	}
	return new(big.Int).Rand(r, new(big.Int).Add(top, bOne)), "uniform"
}

// genBancor: one input of the given class ("reach" or "wide").
func genBancor(r *rand.Rand, fn, class string) bancorIn {
	in := bancorIn{fn: fn, c: genCRR(r)}
	var sv, sR, sx string
	minR := 0
	if class == "reach" {
		minR = 22
	}
	in.v, sv = magnitude(r, 0)
	in.R, sR = magnitude(r, minR)
	switch r.Intn(10) {
	case 0: // reserve at the floor
		in.R = new(big.Int).Add(bMinRes, big.NewInt(int64(r.Intn(2))))
		sR = "floor"
	case 1: // supply ≫ reserve
		in.v, in.R = logUniform(r, 28, 33), logUniform(r, minR, minR+4)
		sv, sR = "big", "small"
	case 2: // reserve ≫ supply, tiny supply
		in.v, in.R = logUniform(r, 0, 6), logUniform(r, 26, 33)
		sv, sR = "tiny", "big"
	}
	switch fn {
	case fnSaleReturn:
		in.x, sx = amountIn(r, in.v)
	case fnSaleAmount:
		top := in.R
		if class == "reach" && r.Intn(2) == 0 { // commissionFromReserve: reserve − wanted ≥ 10^22
			top = new(big.Int).Sub(in.R, bMinRes)
		}
		in.x, sx = amountIn(r, top)
	case fnPurchaseReturn:
		in.x, sx = amountIn(r, bTen33)
	case fnPurchaseAmount:
		top := bTen33
		if class == "reach" {
			top = new(big.Int).Sub(bTen33, in.v)
		}
		in.x, sx = amountIn(r, top)
	}
	in.shape = sv + "/" + sR + "/" + sx
	return in
}

// genDegenerate: inputs outside the mathematical domain (what does the code do there?).
func genDegenerate(r *rand.Rand, fn string) bancorIn {
	in := genBancor(r, fn, "wide")
	switch r.Intn(4) {
	case 0:
		in.v = big.NewInt(0)
		in.shape = "supply0"
	case 1:
		in.R = big.NewInt(0)
		in.shape = "reserve0"
	case 2:
		in.v, in.R = big.NewInt(0), big.NewInt(0)
		in.shape = "both0"
	case 3: // amount beyond the supply / the reserve
		switch fn {
		case fnSaleReturn:
			in.x = new(big.Int).Add(in.v, logUniform(r, 0, 33))
		case fnSaleAmount:
			in.x = new(big.Int).Add(in.R, logUniform(r, 0, 33))
		default:
			in.c = []uint32{0, 1, 5, 101, 200, 1000}[r.Intn(6)]
		}
		in.shape = "beyond"
	}
	return in
}

/* ---------- exact arithmetic on the Go side (measurement only; the judge is the Lean certificate) ---------- */

func ipow(b *big.Int, n uint32) *big.Int { return new(big.Int).Exp(b, big.NewInt(int64(n)), nil) }

// goCert mirrors Minter.{saleReturn,purchaseReturn,purchaseAmount,saleAmount}Cert.
func goCert(fn string, v, R *big.Int, c uint32, x, r, delta *big.Int) bool {
	lo := new(big.Int).Sub(r, delta)
	hi := new(big.Int).Add(r, delta)
	hi.Add(hi, bOne)
	mul := func(a, b *big.Int) *big.Int { return new(big.Int).Mul(a, b) }
	sub := func(a, b *big.Int) *big.Int { return new(big.Int).Sub(a, b) }
	add := func(a, b *big.Int) *big.Int { return new(big.Int).Add(a, b) }
	switch fn {
	case fnSaleReturn:
		t := mul(ipow(sub(v, x), 100), ipow(R, c))
		v100 := ipow(v, 100)
		okLo := lo.Sign() <= 0 || (lo.Cmp(R) <= 0 && t.Cmp(mul(ipow(sub(R, lo), c), v100)) <= 0)
		okHi := hi.Cmp(R) > 0 || mul(ipow(sub(R, hi), c), v100).Cmp(t) < 0
		return okLo && okHi
	case fnPurchaseReturn:
		t := mul(ipow(add(R, x), c), ipow(v, 100))
		Rc := ipow(R, c)
		okLo := lo.Sign() <= 0 || mul(ipow(add(v, lo), 100), Rc).Cmp(t) <= 0
		okHi := add(v, hi).Sign() >= 0 && t.Cmp(mul(ipow(add(v, hi), 100), Rc)) < 0
		return okLo && okHi
	case fnPurchaseAmount:
		t := mul(ipow(add(x, v), 100), ipow(R, c))
		v100 := ipow(v, 100)
		okLo := lo.Sign() <= 0 || mul(ipow(add(R, lo), c), v100).Cmp(t) <= 0
		okHi := add(R, hi).Sign() >= 0 && t.Cmp(mul(ipow(add(R, hi), c), v100)) < 0
		return okLo && okHi
	case fnSaleAmount:
		t := mul(ipow(sub(R, x), c), ipow(v, 100))
		Rc := ipow(R, c)
		okLo := lo.Sign() <= 0 || (lo.Cmp(v) <= 0 && t.Cmp(mul(ipow(sub(v, lo), 100), Rc)) <= 0)
		okHi := hi.Cmp(v) > 0 || mul(ipow(sub(v, hi), 100), Rc).Cmp(t) < 0
		return okLo && okHi
	}
	return false
}

// hiPrec: the real formula at 700 bits with the exact rational exponent (measurement only).
func hiPrec(fn string, v, R *big.Int, c uint32, x *big.Int) *big.Float {
	// enough bits for the integer part of the result (up to 10^33·(10^33)^10, more in round trips) plus 300 for the cancellation
	p := uint(400 + 2*(v.BitLen()+R.BitLen()+x.BitLen()))
	if fn == fnPurchaseAmount {
		p += uint(10 * x.BitLen())
	}
	nf := func(i *big.Int) *big.Float { return new(big.Float).SetPrec(p).SetInt(i) }
	one := new(big.Float).SetPrec(p).SetInt64(1)
	fc := new(big.Float).SetPrec(p).SetInt64(int64(c))
	f100 := new(big.Float).SetPrec(p).SetInt64(100)
	up := new(big.Float).SetPrec(p).Quo(f100, fc) // 100/c
	dn := new(big.Float).SetPrec(p).Quo(fc, f100) // c/100
	res := new(big.Float).SetPrec(p)
	switch fn {
	case fnSaleReturn: // R(1 − ((v−x)/v)^(100/c))
		res.Quo(nf(new(big.Int).Sub(v, x)), nf(v))
		res = bmath.Pow(res, up)
		res.Sub(one, res)
		res.Mul(res, nf(R))
	case fnPurchaseReturn: // v(((R+x)/R)^(c/100) − 1)
		res.Quo(nf(new(big.Int).Add(R, x)), nf(R))
		res = bmath.Pow(res, dn)
		res.Sub(res, one)
		res.Mul(res, nf(v))
	case fnPurchaseAmount: // R(((v+x)/v)^(100/c) − 1)
		res.Quo(nf(new(big.Int).Add(v, x)), nf(v))
		res = bmath.Pow(res, up)
		res.Sub(res, one)
		res.Mul(res, nf(R))
	case fnSaleAmount: // v(1 − ((R−x)/R)^(c/100))
		res.Quo(nf(new(big.Int).Sub(R, x)), nf(R))
		res = bmath.Pow(res, dn)
		res.Sub(one, res)
		res.Mul(res, nf(v))
	}
	return res
}

// exactFloor: ⌊real formula⌋, the candidate from hiPrec is confirmed by the exact integer certificate with δ = 0.
func exactFloor(in bancorIn) (*big.Int, bool) {
	if in.x.Sign() == 0 {
		return big.NewInt(0), true
	}
	h := hiPrec(in.fn, in.v, in.R, in.c, in.x)
	cand, _ := h.Int(nil)
	zero := big.NewInt(0)
	for _, d := range []int64{0, -1, 1, -2, 2} {
		f := new(big.Int).Add(cand, big.NewInt(d))
		if goCert(in.fn, in.v, in.R, in.c, in.x, f, zero) {
			return f, true
		}
	}
	return cand, false
}

/* ---------- the fixed tolerance (mirror of Minter.saleReturnTol &c.; used only by tier "measure" to print margins) ---------- */

func maxZero(x *big.Int) *big.Int {
	if x.Sign() < 0 {
		return big.NewInt(0)
	}
	return x
}

// scaleOf: what the absolute part of the tolerance is relative to (R, v, or v·R/(R−w) for saleAmount).
func scaleOf(in bancorIn) *big.Int {
	switch in.fn {
	case fnSaleReturn, fnPurchaseAmount:
		return in.R
	case fnPurchaseReturn:
		return in.v
	}
	den := new(big.Int).Sub(in.R, in.x)
	if den.Sign() <= 0 {
		den = big.NewInt(1)
	}
	return new(big.Int).Div(new(big.Int).Mul(in.v, in.R), den)
}

var tolShift = map[string][2]uint{ // result >> k1 + scale >> k2 + 1
	fnSaleReturn: {43, 87}, fnPurchaseReturn: {37, 89}, fnPurchaseAmount: {33, 86}, fnSaleAmount: {43, 89},
}

func goTol(in bancorIn, r *big.Int) *big.Int {
	k := tolShift[in.fn]
	t := new(big.Int).Rsh(maxZero(r), k[0])
	t.Add(t, new(big.Int).Rsh(scaleOf(in), k[1]))
	return t.Add(t, bOne)
}

func log2Big(x *big.Int) float64 {
	if x.Sign() <= 0 {
		return -9999
	}
	var m big.Float
	e := new(big.Float).SetInt(x).MantExp(&m)
	f, _ := m.Float64()
	return math.Log2(f) + float64(e)
}

func log2Ratio(num, den *big.Int) float64 {
	if num.Sign() <= 0 {
		return -9999
	}
	if den.Sign() <= 0 {
		return 9999
	}
	return log2Big(num) - log2Big(den)
}

/* ---------- the mode ---------- */

type bancorStats struct {
	sync.Mutex
	perFn     map[string]int
	perShape  map[string]int
	perClass  map[string]int
	findings  map[string][]string // degenerate behaviour, by kind
	nFind     map[string]int
	measN     map[string]int     // per fn/class: results measured
	measExact map[string]int     // … equal to the exact floor
	maxRel    map[string]float64 // max log2(err / result) where the absolute part is negligible (err > 16 + scale·2^-88)
	maxAbs    map[string]float64 // max log2(err / scale) where the relative part is negligible (result < 2^40, err > 1)
	minMargin map[string]float64 // min log2(tolerance / err) over err ≥ 1
	worst     map[string]string
	errHist   map[string]map[int]int // per fn: histogram of ⌈log2(err pips)⌉
	nonMono   int
	rtOver    map[string]int
	rtMax     map[string]float64
	dump      *os.File
}

func newBancorStats() *bancorStats {
	return &bancorStats{perFn: map[string]int{}, perShape: map[string]int{}, perClass: map[string]int{}, findings: map[string][]string{},
		nFind: map[string]int{}, measN: map[string]int{}, measExact: map[string]int{}, maxRel: map[string]float64{}, maxAbs: map[string]float64{},
		minMargin: map[string]float64{}, worst: map[string]string{},
		errHist: map[string]map[int]int{}, rtOver: map[string]int{}, rtMax: map[string]float64{}}
}

func (s *bancorStats) finding(kind, detail string) {
	s.Lock()
	s.nFind[kind]++
	if len(s.findings[kind]) < 3 {
		s.findings[kind] = append(s.findings[kind], detail)
	}
	s.Unlock()
}

type bancorWorker struct {
	r     *rand.Rand
	sink  *Sink
	st    *bancorStats
	res   *ModeResult
	resMu *sync.Mutex
	meas  bool
	fails [][2]string // (question, driver's answer)
}

func (w *bancorWorker) q(line string) {
	for _, rep := range w.sink.Op(line) {
		if strings.HasPrefix(rep, "MISMATCH") || strings.HasPrefix(rep, "FAIL") || strings.HasPrefix(rep, "VIOL") {
			w.fails = append(w.fails, [2]string{line, rep})
		}
	}
	w.resMu.Lock()
	w.res.Evaluations++
	if len(w.res.Samples) < 8 && w.r.Intn(400) == 0 {
		w.res.Samples = append(w.res.Samples, line)
	}
	w.resMu.Unlock()
}

// certify: call the real code, emit the certificate question; returns the result (nil if the code failed).
func (w *bancorWorker) certify(in bancorIn, class string) *big.Int {
	res, bad := callBancor(in.fn, in.v, in.R, in.c, in.x)
	w.st.Lock()
	w.st.perFn[in.fn]++
	w.st.perClass[class]++
	w.st.perShape[in.shape]++
	w.st.Unlock()
	if bad != "" {
		// inside the domain of the formula a panic / nil is a violation: the driver answers `false` for a non-number
		w.q(fmt.Sprintf("Q %sCert %s %s %d %s %s = true", in.fn, in.v, in.R, in.c, in.x, bad))
		return nil
	}
	w.q(fmt.Sprintf("Q %sCert %s %s %d %s %s = true", in.fn, in.v, in.R, in.c, in.x, res))
	if w.meas {
		w.measure(in, class, res)
	}
	return res
}

func (w *bancorWorker) measure(in bancorIn, class string, res *big.Int) {
	fl, ok := exactFloor(in)
	if !ok {
		w.st.finding("measure-no-floor", in.String())
		return
	}
	err := new(big.Int).Sub(res, fl)
	err.Abs(err)
	key := in.fn + "/" + class
	sc := scaleOf(in)
	desc := func() string {
		return fmt.Sprintf("%s go=%s floor=%s err=%s log2(err/result)=%.1f log2(err/scale)=%.1f", in, res, fl, err, log2Ratio(err, fl), log2Ratio(err, sc))
	}
	w.st.Lock()
	defer w.st.Unlock()
	if w.st.dump != nil {
		fmt.Fprintf(w.st.dump, "%s,%s,%d,%s,%s,%s,%s,%s\n", in.fn, class, in.c, in.v, in.R, in.x, res, fl)
	}
	w.st.measN[key]++
	h := w.st.errHist[key]
	if h == nil {
		h = map[int]int{}
		w.st.errHist[key] = h
	}
	h[err.BitLen()]++
	if err.Sign() == 0 {
		w.st.measExact[key]++
		return
	}
	upd := func(m map[string]float64, val float64, tag string, max bool) {
		cur, ok := m[key]
		if !ok || (max && val > cur) || (!max && val < cur) {
			m[key] = val
			w.st.worst[key+"/"+tag] = desc()
		}
	}
	absPart := new(big.Int).Rsh(sc, 88)
	absPart.Add(absPart, big.NewInt(16))
	if err.Cmp(absPart) > 0 {
		upd(w.st.maxRel, log2Ratio(err, fl), "max-relative", true)
	}
	if fl.BitLen() <= 40 && err.Cmp(bOne) > 0 {
		upd(w.st.maxAbs, log2Ratio(err, sc), "max-absolute", true)
	}
	if err.BitLen() > 5 { // below 32 pips the "+1" of the tolerance and the truncation dominate
		upd(w.st.minMargin, log2Ratio(goTol(in, res), err), "min-margin", false)
	}
}

// one: all checks hanging off one generated input.
func (w *bancorWorker) one(in bancorIn, class string) {
	r := w.r
	res := w.certify(in, class)
	if res == nil {
		return
	}
	// monotone pairs (a, a+1), (a, 2a) — the second amount must stay inside the domain
	for _, k := range []int{0, 1} {
		if r.Intn(3) != 0 {
			continue
		}
		x2 := new(big.Int).Add(in.x, bOne)
		if k == 1 {
			x2 = new(big.Int).Lsh(in.x, 1)
		}
		in2 := in
		in2.x = x2
		if !in2.inDomain() || (class == "reach" && !in2.reach()) {
			continue
		}
		res2 := w.certify(in2, class)
		if res2 == nil {
			continue
		}
		w.q(fmt.Sprintf("Q bancorMono %s %s %s %d %s %s %s %s = ok", in.fn, in.v, in.R, in.c, in.x, x2, res, res2))
		if res.Cmp(res2) > 0 {
			w.st.Lock()
			w.st.nonMono++
			w.st.Unlock()
			w.st.finding("non-monotone/"+in.fn+"/"+class, fmt.Sprintf("%s -> %s but x'=%s -> %s", in, res, x2, res2))
		}
	}
	switch in.fn {
	case fnSaleReturn:
		if r.Intn(4) == 0 { // sell everything
			all, bad := callBancor(fnSaleReturn, in.v, in.R, in.c, in.v)
			out := bad
			if all != nil {
				out = all.String()
			}
			w.q(fmt.Sprintf("Q bancorSellAll %s %s %d %s = ok", in.v, in.R, in.c, out))
		}
	case fnPurchaseReturn: // buy r for d, then sell r in the updated coin
		if res.Sign() > 0 && r.Intn(2) == 0 {
			v2, R2 := new(big.Int).Add(in.v, res), new(big.Int).Add(in.R, in.x)
			back := w.certify(bancorIn{fn: fnSaleReturn, v: v2, R: R2, c: in.c, x: res, shape: "roundtrip"}, class+"-rt")
			if back != nil {
				w.q(fmt.Sprintf("Q bancorRoundTrip %s %s %d %s %s %s = ok", in.v, in.R, in.c, in.x, res, back))
				w.rt("purchaseReturn→saleReturn/"+class, in, in.x, back)
			}
		}
	case fnPurchaseAmount: // buy exactly w for p, then sell w in the updated coin
		if in.x.Sign() > 0 && r.Intn(2) == 0 {
			v2, R2 := new(big.Int).Add(in.v, in.x), new(big.Int).Add(in.R, res)
			back := w.certify(bancorIn{fn: fnSaleReturn, v: v2, R: R2, c: in.c, x: in.x, shape: "roundtrip"}, class+"-rt")
			if back != nil {
				w.q(fmt.Sprintf("Q bancorRoundTripAmount %s %s %d %s %s %s = ok", in.v, in.R, in.c, in.x, res, back))
				w.rt("purchaseAmount→saleReturn/"+class, in, res, back)
			}
		}
	}
}

func (w *bancorWorker) rt(key string, in bancorIn, paid, back *big.Int) {
	if back.Cmp(paid) <= 0 {
		return
	}
	over := new(big.Int).Sub(back, paid)
	l := log2Ratio(over, paid)
	w.st.Lock()
	w.st.rtOver[key]++
	if cur, ok := w.st.rtMax[key]; !ok || l > cur {
		w.st.rtMax[key] = l
		w.st.worst["rt/"+key] = fmt.Sprintf("%s paid=%s back=%s over=%s log2(over/paid)=%.1f", in, paid, back, over, l)
	}
	w.st.Unlock()
}

// degenerate: outside the domain of the formula. Reported, not judged.
func (w *bancorWorker) degenerate(in bancorIn) {
	done := make(chan struct{})
	var res *big.Int
	var bad string
	go func() {
		res, bad = callBancor(in.fn, in.v, in.R, in.c, in.x)
		close(done)
	}()
	select {
	case <-done:
	case <-time.After(20 * time.Second):
		w.st.finding(in.fn+"/"+in.shape+"/hang(>20s)", in.String())
		return
	}
	w.st.Lock()
	w.st.perClass["degenerate"]++
	w.st.Unlock()
	kind := ""
	switch {
	case bad != "":
		kind = bad
	case res.Sign() < 0:
		kind = "negative-result"
	case in.fn == fnSaleReturn && res.Cmp(in.R) > 0:
		kind = "sale-return-above-reserve"
	case in.fn == fnSaleAmount && res.Cmp(in.v) > 0:
		kind = "sale-amount-above-supply"
	default:
		kind = "returns-a-number"
	}
	out := "-"
	if res != nil {
		out = res.String()
	}
	w.st.finding(in.fn+"/"+in.shape+"/"+kind, in.String()+" -> "+out)
}

// bancorFixed: inputs replayed on every run (anchors of the Lean examples, the known finding, boundary shapes).
func bancorFixed() []bancorIn {
	bi := func(s string) *big.Int { v, _ := new(big.Int).SetString(s, 10); return v }
	mk := func(fn, v, R string, c uint32, x string) bancorIn {
		return bancorIn{fn: fn, v: bi(v), R: bi(R), c: c, x: bi(x), shape: "fixed"}
	}
	return []bancorIn{
		mk(fnSaleReturn, "1000", "500", 50, "100"), mk(fnPurchaseReturn, "1000", "500", 50, "100"),
		mk(fnPurchaseAmount, "1000", "500", 50, "100"), mk(fnSaleAmount, "1000", "500", 50, "95"),
		// known finding: returns R + 8 (and R for the whole supply)
		mk(fnSaleReturn, "1000000000000000000000000000000000", "96291325015360156440255470964472", 11, "999999999999999999999999999999999"),
		// the largest exactly representable reserve: no excess
		mk(fnSaleReturn, "1000000000000000000000000000000000", "1267650600228229401496703205376", 11, "999999999999999999999999999999999"),
		// ill-conditioned saleAmount: want all but one pip of a reserve above 2^100
		mk(fnSaleAmount, "30012230056735", "9362560926092746537994406015007", 10, "9362560926092746537994406015006"),
		mk(fnSaleAmount, "1000000000000000000", "10000000000000000000000", 10, "10000000000000000000000"),
		mk(fnPurchaseAmount, "1", "10000000000000000000001", 11, "999999999999999999999999999999998"),
		mk(fnPurchaseReturn, "1000000000000000000000000000000000", "10000000000000000000000", 10, "1"),
	}
}

// BancorMode: tier quick ≈ 2.4·10^4 generated inputs (≈ 4·10^4 certificate evaluations), thorough 10^6·n/… see props.py;
// tier "measure" additionally computes the exact error of every result (Go big-integer arithmetic) and prints the distribution.
func BancorMode(seed int64, n int, tier, driver, keep string) ModeResult {
	res := ModeResult{Notes: map[string]interface{}{}}
	os.MkdirAll(keep, 0o755)
	if n <= 0 {
		n = 20000 // quick: ≈ 4.9·10^4 evaluations
		if tier == "thorough" || tier == "measure" {
			n = 420000 // ≈ 10^6 evaluations
		}
	}
	workers := runtime.NumCPU()
	if workers > 16 {
		workers = 16
	}
	if workers > n {
		workers = 1
	}
	st := newBancorStats()
	var resMu sync.Mutex
	if p := os.Getenv("BANCOR_DUMP"); p != "" && tier == "measure" {
		st.dump, _ = os.Create(p)
		defer st.dump.Close()
	}
	var wg sync.WaitGroup
	outs := make([][][2]string, workers)
	eofs := make([][]string, workers)
	master := rand.New(rand.NewSource(seed))
	seeds := make([]int64, workers)
	for i := range seeds {
		seeds[i] = master.Int63()
	}
	start := time.Now()
	for wi := 0; wi < workers; wi++ {
		wg.Add(1)
		go func(wi int) {
			defer wg.Done()
			sink, err := NewSink("", driver) // every Q line is self-contained: only the failing ones are kept as the replay
			if err != nil {
				resMu.Lock()
				res.Crash = err.Error()
				resMu.Unlock()
				return
			}
			w := &bancorWorker{r: rand.New(rand.NewSource(seeds[wi])), sink: sink, st: st, res: &res, resMu: &resMu, meas: tier == "measure"}
			cnt := n / workers
			if wi < n%workers {
				cnt++
			}
			if wi == 0 {
				for _, in := range bancorFixed() {
					w.one(in, "fixed")
				}
			}
			for i := 0; i < cnt; i++ {
				fn := bancorFns[w.r.Intn(4)]
				switch k := w.r.Intn(20); {
				case k == 0:
					w.degenerate(genDegenerate(w.r, fn))
				case k < 12:
					w.one(genBancor(w.r, fn, "reach"), "reach")
				default:
					w.one(genBancor(w.r, fn, "wide"), "wide")
				}
			}
			sink.Close()
			outs[wi] = w.fails
			for _, f := range sink.Fails {
				if strings.HasPrefix(f, "DRIVER-EOF") {
					eofs[wi] = append(eofs[wi], f)
				}
			}
		}(wi)
	}
	wg.Wait()
	replay := fmt.Sprintf("%s/bancor-%d.trace", keep, seed)
	var lines []string
	kinds := map[string]int{}
	for wi := range outs {
		for _, f := range outs[wi] {
			lines = append(lines, f[0])
			kind := f[1]
			if i := strings.Index(kind, "model="); i >= 0 {
				kind = strings.Fields(kind[i:])[0]
				if j := strings.Index(kind, ":"); j >= 0 {
					kind = kind[:j]
				}
			}
			kinds[kind]++
			if kinds[kind] <= 5 { // a few of each kind; all of them are in the replay file
				res.viol("C12", f[1], replay)
			}
		}
		for _, f := range eofs[wi] {
			res.viol("C12", f, replay)
		}
	}
	if len(lines) > 0 {
		os.WriteFile(replay, []byte(strings.Join(lines, "\n")+"\n"), 0o644)
	} else {
		os.Remove(replay)
	}
	res.Notes["violation_kinds"] = kinds
	res.Distinct = res.Evaluations
	res.Notes["seconds"] = time.Since(start).Seconds()
	res.Notes["workers"] = workers
	res.Notes["per_function"] = st.perFn
	res.Notes["per_class"] = st.perClass
	res.Notes["per_shape_top"] = topShapes(st.perShape, 25)
	res.Notes["strictly_decreasing_pairs"] = st.nonMono
	res.Notes["round_trip_returned_more_than_paid"] = st.rtOver
	res.Notes["round_trip_max_log2_over_paid"] = st.rtMax
	res.Notes["degenerate_findings_count"] = st.nFind
	res.Notes["degenerate_findings_examples"] = st.findings
	if tier == "measure" {
		res.Notes["measure_results"] = st.measN
		res.Notes["measure_results_equal_to_exact_floor"] = st.measExact
		res.Notes["measure_max_log2_err_over_result"] = st.maxRel
		res.Notes["measure_max_log2_err_over_scale"] = st.maxAbs
		res.Notes["measure_min_log2_tolerance_over_err"] = st.minMargin
		res.Notes["measure_err_bits_hist"] = st.errHist
	}
	res.Notes["worst"] = st.worst
	return res
}

func topShapes(m map[string]int, k int) map[string]int {
	type kv struct {
		k string
		v int
	}
	var l []kv
	for a, b := range m {
		l = append(l, kv{a, b})
	}
	sort.Slice(l, func(i, j int) bool { return l[i].v > l[j].v || (l[i].v == l[j].v && l[i].k < l[j].k) })
	out := map[string]int{}
	for i := 0; i < len(l) && i < k; i++ {
		out[l[i].k] = l[i].v
	}
	out["(distinct shapes)"] = len(m)
	return out
}
