package main

import (
	"crypto/ecdsa"
	"encoding/hex"
	"fmt"
	"math/big"
	"sort"
	"strings"

	"github.com/MinterTeam/minter-go-node/coreV2/check"
	"github.com/MinterTeam/minter-go-node/coreV2/state"
	"github.com/MinterTeam/minter-go-node/coreV2/state/commission"
	tx "github.com/MinterTeam/minter-go-node/coreV2/transaction"
	"github.com/MinterTeam/minter-go-node/coreV2/types"
	"github.com/MinterTeam/minter-go-node/crypto"
	"github.com/MinterTeam/minter-go-node/rlp"
	"golang.org/x/crypto/sha3"
)

// GenTx is a generated transaction with what the harness knows about it.
type GenTx struct {
	Type    tx.TxType
	Sender  types.Address // account acting (multisig address for multisig txs)
	Signers []types.Address
	Raw     []byte
	Data    interface{}
	GasCoin types.CoinID
	Nonce   uint64
	Note    string // generator intent: "valid", "malformed:<kind>" ...
}

type Gen struct {
	W *World
	N *Node
	// weights per tx type (0 disables)
	Weights map[tx.TxType]int
	// options
	MalformedPct int // percentage of txs drawn from the malformed stream
	CustomGasPct int // percentage of txs paying commission in a custom coin
	MultisigPct  int
	Recent       [][]byte // recently delivered raw txs (for replay stream)
	FailedRun    [][]byte // delivered txs that passed the RunTx prologue but failed inside Run (failure fee charged, nonce unchanged): C26 replays
	NearVotes    bool
	// directed generation (directed.go)
	ExactPct    int                        // percent of slippage limits set to the exact current quote (±1 pip) instead of a slack value
	OwnGasPct   int                        // percent of pool/order transactions whose fee is paid in one of the coins they handle
	GasPriceMax uint32                     // when > 5: half of the transactions carry a gas price 2..GasPriceMax
	Sent        map[types.Address][][]byte // accepted bytes of the light wallets (walletDance), in nonce order
	wallet      *walletLife
	walletsUsed int
	owners      *danceState // ticker hand-overs made by the scripted sequences (txgen_extra.go ownerDance)
}

func (g *Gen) cs() *state.CheckState { return g.N.App.CurrentState() }

func (g *Gen) rint(n int) int {
	if n <= 0 {
		return 0
	}
	return g.W.Rng.Intn(n)
}

func (g *Gen) pickAddr() types.Address { return g.W.Addrs[g.rint(len(g.W.Addrs))] }

func (g *Gen) coinsCount() uint32 { return g.cs().App().GetCoinsCount() }

func (g *Gen) allCoinIDs() []types.CoinID {
	res := []types.CoinID{0}
	n := g.coinsCount()
	for i := uint32(1); i <= n && i < 64; i++ {
		if g.cs().Coins().Exists(types.CoinID(i)) {
			res = append(res, types.CoinID(i))
		}
	}
	if g.cs().Coins().Exists(1993) {
		res = append(res, 1993)
	}
	return res
}

func (g *Gen) pickCoin() types.CoinID {
	ids := g.allCoinIDs()
	return ids[g.rint(len(ids))]
}

// coinsOf returns the coins of which addr has a positive balance.
func (g *Gen) coinsOf(a types.Address) []types.CoinID {
	var res []types.CoinID
	for _, c := range g.allCoinIDs() {
		if g.cs().Accounts().GetBalance(a, c).Sign() > 0 {
			res = append(res, c)
		}
	}
	return res
}

// amount picks an amount: mostly a fraction of max, sometimes boundary values.
func (g *Gen) amount(max *big.Int) *big.Int {
	if max == nil || max.Sign() <= 0 {
		return big.NewInt(int64(1 + g.rint(1000)))
	}
	switch g.rint(20) {
	case 0:
		return new(big.Int).Set(max)
	case 1:
		return new(big.Int).Add(max, big.NewInt(1))
	case 2:
		return big.NewInt(1)
	case 3:
		return big.NewInt(0)
	case 4:
		return new(big.Int).Sub(max, big.NewInt(1))
	}
	// fraction 1/2 .. 1/1000
	d := int64(2 + g.rint(200))
	return new(big.Int).Div(max, big.NewInt(d))
}

func (g *Gen) pickPubKey(existing bool) types.Pubkey {
	if existing {
		cands := g.cs().Candidates().GetCandidates()
		if len(cands) > 0 {
			return cands[g.rint(len(cands))].PubKey
		}
	}
	return g.W.PubKeys[g.rint(len(g.W.PubKeys))]
}

func (g *Gen) poolPairs() [][2]types.CoinID {
	var res [][2]types.CoinID
	ids := g.allCoinIDs()
	for i := 0; i < len(ids); i++ {
		for j := 0; j < len(ids); j++ {
			if i != j && ids[i] < ids[j] && g.cs().Swap().SwapPoolExist(ids[i], ids[j]) {
				res = append(res, [2]types.CoinID{ids[i], ids[j]})
			}
		}
	}
	return res
}

// route builds a random pool route of 2..k coins starting anywhere.
func (g *Gen) route(maxLen int) []types.CoinID {
	pairs := g.poolPairs()
	if len(pairs) == 0 {
		return []types.CoinID{0, 1}
	}
	p := pairs[g.rint(len(pairs))]
	r := []types.CoinID{p[0], p[1]}
	if g.rint(2) == 0 {
		r = []types.CoinID{p[1], p[0]}
	}
	n := 2 + g.rint(maxLen-1)
	for len(r) < n {
		last := r[len(r)-1]
		var opts []types.CoinID
		for _, q := range pairs {
			var o types.CoinID
			if q[0] == last {
				o = q[1]
			} else if q[1] == last {
				o = q[0]
			} else {
				continue
			}
			dup := false
			for _, x := range r {
				if x == o {
					dup = true
				}
			}
			if !dup {
				opts = append(opts, o)
			}
		}
		if len(opts) == 0 {
			break
		}
		r = append(r, opts[g.rint(len(opts))])
	}
	return r
}

func (g *Gen) gasCoinFor(a types.Address) types.CoinID {
	if g.rint(100) < g.CustomGasPct {
		cs := g.coinsOf(a)
		if len(cs) > 0 {
			return cs[g.rint(len(cs))]
		}
	}
	return 0
}

// Build signs and serialises a transaction.
func (g *Gen) Build(t tx.TxType, data interface{}, sender types.Address, gasCoin types.CoinID, mods ...func(*tx.Transaction)) *GenTx {
	bData, err := rlp.EncodeToBytes(data)
	if err != nil {
		panic(err)
	}
	nonce := g.cs().Accounts().GetNonce(sender) + 1
	t0 := tx.Transaction{Nonce: nonce, ChainID: g.W.Chain, GasPrice: 1, GasCoin: gasCoin, Type: t, Data: bData, SignatureType: tx.SigTypeSingle}
	if g.rint(10) == 0 {
		t0.GasPrice = uint32(1 + g.rint(5))
	}
	if g.GasPriceMax > 5 && g.rint(2) == 0 {
		t0.GasPrice = uint32(2 + g.rint(int(g.GasPriceMax)-1))
	}
	if g.rint(6) == 0 {
		t0.Payload = make([]byte, g.rint(40))
		g.W.Rng.Read(t0.Payload)
	}
	if g.rint(15) == 0 {
		t0.ServiceData = make([]byte, g.rint(10))
	}
	if t == tx.TypeRedeemCheck {
		t0.GasPrice = 1
	}
	gt := &GenTx{Type: t, Sender: sender, Data: data, GasCoin: gasCoin, Note: "gen"}
	// multisig?
	var ms *MultiAcc
	for i := range g.W.Multis {
		if g.W.Multis[i].Addr == sender {
			ms = &g.W.Multis[i]
		}
	}
	for _, m := range mods {
		m(&t0)
	}
	gt.Nonce = t0.Nonce
	if ms != nil {
		t0.SignatureType = tx.SigTypeMulti
		t0.SetMultisigAddress(ms.Addr)
		for _, oi := range ms.Owners {
			if err := t0.Sign(g.W.Keys[oi]); err != nil {
				panic(err)
			}
			gt.Signers = append(gt.Signers, g.W.Addrs[oi])
		}
	} else {
		k := g.W.KeyOf[sender]
		if k == nil {
			k = g.W.Keys[0]
		}
		if err := t0.Sign(k); err != nil {
			panic(err)
		}
		gt.Signers = []types.Address{crypto.PubkeyToAddress(k.PublicKey)}
	}
	raw, err := rlp.EncodeToBytes(t0)
	if err != nil {
		panic(err)
	}
	gt.Raw = raw
	return gt
}

func (g *Gen) sender() types.Address {
	if len(g.W.Multis) > 0 && g.rint(100) < g.MultisigPct {
		return g.W.Multis[g.rint(len(g.W.Multis))].Addr
	}
	return g.pickAddr()
}

var allTypes = []tx.TxType{
	tx.TypeSend, tx.TypeSellCoin, tx.TypeSellAllCoin, tx.TypeBuyCoin, tx.TypeCreateCoin, tx.TypeDeclareCandidacy, tx.TypeDelegate,
	tx.TypeUnbond, tx.TypeRedeemCheck, tx.TypeSetCandidateOnline, tx.TypeSetCandidateOffline, tx.TypeCreateMultisig, tx.TypeMultisend,
	tx.TypeEditCandidate, tx.TypeSetHaltBlock, tx.TypeRecreateCoin, tx.TypeEditCoinOwner, tx.TypeEditMultisig,
	tx.TypeEditCandidatePublicKey, tx.TypeAddLiquidity, tx.TypeRemoveLiquidity, tx.TypeSellSwapPool, tx.TypeBuySwapPool,
	tx.TypeSellAllSwapPool, tx.TypeEditCandidateCommission, tx.TypeMoveStake, tx.TypeMintToken, tx.TypeBurnToken, tx.TypeCreateToken,
	tx.TypeRecreateToken, tx.TypeVoteCommission, tx.TypeVoteUpdate, tx.TypeCreateSwapPool, tx.TypeAddLimitOrder,
	tx.TypeRemoveLimitOrder, tx.TypeLockStake, tx.TypeLock,
}

func DefaultWeights() map[tx.TxType]int {
	w := map[tx.TxType]int{}
	for _, t := range allTypes {
		w[t] = 10
	}
	w[tx.TypeSend] = 30
	w[tx.TypeSellSwapPool] = 25
	w[tx.TypeBuySwapPool] = 25
	w[tx.TypeAddLimitOrder] = 30
	w[tx.TypeDelegate] = 25
	w[tx.TypeUnbond] = 20
	w[tx.TypeSetHaltBlock] = 2
	w[tx.TypeVoteUpdate] = 2
	w[tx.TypeVoteCommission] = 3
	w[tx.TypeEditCandidatePublicKey] = 3
	w[tx.TypeLockStake] = 3
	return w
}

func (g *Gen) pickType() tx.TxType {
	tot := 0
	for _, t := range allTypes {
		tot += g.Weights[t]
	}
	if tot == 0 {
		return tx.TypeSend
	}
	x := g.rint(tot)
	for _, t := range allTypes {
		x -= g.Weights[t]
		if x < 0 {
			return t
		}
	}
	return tx.TypeSend
}

// Next generates the next transaction.
func (g *Gen) Next(height uint64) *GenTx {
	if g.rint(100) < g.MalformedPct {
		return g.malformed(height)
	}
	return g.OfType(g.pickType(), height)
}

func (g *Gen) symbolOfCoin(id types.CoinID) types.CoinSymbol {
	c := g.cs().Coins().GetCoin(id)
	if c == nil {
		return types.StrToCoinSymbol("NOPE")
	}
	return c.Symbol()
}

func (g *Gen) OfType(t tx.TxType, height uint64) *GenTx {
	cs := g.cs()
	s := g.sender()
	gas := g.gasCoinFor(s)
	switch t {
	case tx.TypeSend:
		coins := g.coinsOf(s)
		c := g.pickCoin()
		if len(coins) > 0 && g.rint(10) != 0 {
			c = coins[g.rint(len(coins))]
		}
		return g.Build(t, tx.SendData{Coin: c, To: g.pickAddr(), Value: g.amount(cs.Accounts().GetBalance(s, c))}, s, gas)
	case tx.TypeMultisend:
		n := 1 + g.rint(4)
		var l []tx.MultisendDataItem
		coins := g.coinsOf(s)
		for i := 0; i < n; i++ {
			c := g.pickCoin()
			if len(coins) > 0 {
				c = coins[g.rint(len(coins))]
			}
			b := new(big.Int).Div(cs.Accounts().GetBalance(s, c), big.NewInt(int64(n+1)))
			l = append(l, tx.MultisendDataItem{Coin: c, To: g.pickAddr(), Value: g.amount(b)})
		}
		return g.Build(t, tx.MultisendData{List: l}, s, gas)
	case tx.TypeSellCoin, tx.TypeBuyCoin, tx.TypeSellAllCoin:
		// bancor coins: 0 and reserve coins
		var bc []types.CoinID
		for _, c := range g.allCoinIDs() {
			if cs.Coins().GetCoin(c).BaseOrHasReserve() {
				bc = append(bc, c)
			}
		}
		from := bc[g.rint(len(bc))]
		to := bc[g.rint(len(bc))]
		if g.rint(10) == 0 {
			to = g.pickCoin()
		}
		// coins that are close to their maximum supply: buy about as much as is left (below, at, above the remaining room)
		var roomDeposit, roomBuy *big.Int
		if tight := g.tightCoins(); len(tight) > 0 && g.rint(3) == 0 {
			to = tight[g.rint(len(tight))]
			if g.rint(4) != 0 {
				from = 0
			}
		}
		if to != from && !to.IsBaseCoin() && g.exact() {
			if c := cs.Coins().GetCoin(to); c != nil && c.BaseOrHasReserve() && roomOf(c).Cmp(c.Volume()) < 0 {
				frac := roomFractions[g.rint(len(roomFractions))]
				roomBuy = new(big.Int).Div(new(big.Int).Mul(roomOf(c), big.NewInt(frac)), big.NewInt(100))
				if from.IsBaseCoin() {
					roomDeposit = g.depositForRoom(to, frac)
				}
			}
		}
		bal := cs.Accounts().GetBalance(s, from)
		switch t {
		case tx.TypeSellCoin:
			if roomDeposit != nil && roomDeposit.Sign() == 1 {
				for tries := 0; tries < 6 && cs.Accounts().GetBalance(s, from).Cmp(roomDeposit) <= 0; tries++ {
					s = g.pickAddr()
				}
				return g.Build(t, tx.SellCoinData{CoinToSell: from, ValueToSell: roomDeposit, CoinToBuy: to, MinimumValueToBuy: big.NewInt(int64(g.rint(2)))}, s, g.gasCoinFor(s))
			}
			return g.Build(t, tx.SellCoinData{CoinToSell: from, ValueToSell: g.amount(new(big.Int).Div(bal, big.NewInt(4))), CoinToBuy: to, MinimumValueToBuy: g.minBuy()}, s, gas)
		case tx.TypeBuyCoin:
			if roomBuy != nil && roomBuy.Sign() == 1 {
				return g.Build(t, tx.BuyCoinData{CoinToBuy: to, ValueToBuy: roomBuy, CoinToSell: from, MaximumValueToSell: new(big.Int).Set(bal)}, s, gas)
			}
			return g.Build(t, tx.BuyCoinData{CoinToBuy: to, ValueToBuy: g.amount(pip(int64(1 + g.rint(500)))), CoinToSell: from, MaximumValueToSell: g.maxSell(bal)}, s, gas)
		default:
			return g.Build(t, tx.SellAllCoinData{CoinToSell: from, CoinToBuy: to, MinimumValueToBuy: g.minBuy()}, s, from)
		}
	case tx.TypeCreateCoin, tx.TypeRecreateCoin:
		sym := g.W.Symbols[g.rint(len(g.W.Symbols))]
		amt := pip(int64(1 + g.rint(100000)))
		res := pip(int64(10000 + g.rint(20000)))
		if g.rint(10) == 0 {
			res = pip(int64(9000 + g.rint(2000)))
		}
		maxs := new(big.Int).Mul(amt, big.NewInt(int64(1+g.rint(100))))
		crr := uint32(10 + g.rint(91))
		if g.rint(15) == 0 {
			crr = uint32(g.rint(120))
		}
		if t == tx.TypeCreateCoin {
			return g.Build(t, tx.CreateCoinData{Name: "n" + sym, Symbol: types.StrToCoinSymbol(sym), InitialAmount: amt, InitialReserve: res, ConstantReserveRatio: crr, MaxSupply: maxs}, s, gas)
		}
		// recreate: prefer an existing symbol owned by sender
		ids := g.allCoinIDs()
		id := ids[g.rint(len(ids))]
		symb := g.symbolOfCoin(id)
		if info := cs.Coins().GetSymbolInfo(symb); info != nil && info.OwnerAddress() != nil && g.rint(5) != 0 {
			s = *info.OwnerAddress()
			gas = 0
		}
		return g.Build(t, tx.RecreateCoinData{Name: "re", Symbol: symb, InitialAmount: amt, InitialReserve: res, ConstantReserveRatio: crr, MaxSupply: maxs}, s, gas)
	case tx.TypeCreateToken, tx.TypeRecreateToken:
		sym := g.W.Symbols[g.rint(len(g.W.Symbols))]
		amt := pip(int64(1 + g.rint(100000)))
		maxs := new(big.Int).Mul(amt, big.NewInt(int64(1+g.rint(100))))
		if t == tx.TypeCreateToken {
			return g.Build(t, tx.CreateTokenData{Name: "t" + sym, Symbol: types.StrToCoinSymbol(sym), InitialAmount: amt, MaxSupply: maxs, Mintable: g.rint(2) == 0, Burnable: g.rint(2) == 0}, s, gas)
		}
		ids := g.allCoinIDs()
		id := ids[g.rint(len(ids))]
		symb := g.symbolOfCoin(id)
		if info := cs.Coins().GetSymbolInfo(symb); info != nil && info.OwnerAddress() != nil && g.rint(5) != 0 {
			s = *info.OwnerAddress()
			gas = 0
		}
		return g.Build(t, tx.RecreateTokenData{Name: "ret", Symbol: symb, InitialAmount: amt, MaxSupply: maxs, Mintable: g.rint(2) == 0, Burnable: g.rint(2) == 0}, s, gas)
	case tx.TypeEditCoinOwner:
		id := g.pickCoin()
		symb := g.symbolOfCoin(id)
		if info := cs.Coins().GetSymbolInfo(symb); info != nil && info.OwnerAddress() != nil && g.rint(4) != 0 {
			s = *info.OwnerAddress()
			gas = 0
		}
		return g.Build(t, tx.EditCoinOwnerData{Symbol: symb, NewOwner: g.pickAddr()}, s, gas)
	case tx.TypeMintToken, tx.TypeBurnToken:
		var toks []types.CoinID
		for _, c := range g.allCoinIDs() {
			if cs.Coins().GetCoin(c).IsToken() {
				toks = append(toks, c)
			}
		}
		c := g.pickCoin()
		if len(toks) > 0 && g.rint(8) != 0 {
			c = toks[g.rint(len(toks))]
		}
		if t == tx.TypeMintToken {
			if info := cs.Coins().GetSymbolInfo(g.symbolOfCoin(c)); info != nil && info.OwnerAddress() != nil && g.rint(4) != 0 {
				s = *info.OwnerAddress()
				gas = 0
			}
			return g.Build(t, tx.MintTokenData{Coin: c, Value: g.amount(pip(int64(1 + g.rint(10000))))}, s, gas)
		}
		return g.Build(t, tx.BurnTokenDataV260{Coin: c, Value: g.amount(cs.Accounts().GetBalance(s, c))}, s, gas)
	case tx.TypeDeclareCandidacy:
		pk := g.pickPubKey(false)
		coin := types.CoinID(0)
		if g.rint(3) == 0 {
			coin = g.pickCoin()
		}
		return g.Build(t, tx.DeclareCandidacyData{Address: s, PubKey: pk, Commission: uint32(g.rint(110)), Coin: coin, Stake: g.amount(new(big.Int).Div(cs.Accounts().GetBalance(s, coin), big.NewInt(3)))}, s, gas)
	case tx.TypeDelegate:
		pk := g.pickPubKey(g.rint(10) != 0)
		coins := g.coinsOf(s)
		c := g.pickCoin()
		if len(coins) > 0 {
			c = coins[g.rint(len(coins))]
		}
		return g.Build(t, tx.DelegateDataV260{PubKey: pk, Coin: c, Value: g.amount(new(big.Int).Div(cs.Accounts().GetBalance(s, c), big.NewInt(3)))}, s, gas)
	case tx.TypeUnbond, tx.TypeMoveStake:
		// choose an existing stake when possible
		cands := cs.Candidates().GetCandidates()
		pk := g.pickPubKey(true)
		c := g.pickCoin()
		var val *big.Int
		if len(cands) > 0 && g.rint(8) != 0 {
			for tries := 0; tries < 8; tries++ {
				cand := cands[g.rint(len(cands))]
				stakes := cs.Candidates().GetStakes(cand.PubKey)
				if len(stakes) == 0 {
					continue
				}
				st := stakes[g.rint(len(stakes))]
				if g.W.KeyOf[st.Owner] == nil {
					continue
				}
				pk, c, s, val = cand.PubKey, st.Coin, st.Owner, st.Value
				gas = 0
				break
			}
		}
		// or take it from the waiting list: coins parked there are withdrawn (or moved) through the same two transactions, by a
		// shorter path of the handler (no stake is looked up)
		fromWL := false
		if g.rint(4) == 0 {
			start := g.rint(len(g.W.Addrs))
			for i := range g.W.Addrs {
				a := g.W.Addrs[(start+i)%len(g.W.Addrs)]
				m := cs.WaitList().GetByAddress(a)
				if m == nil || len(m.List) == 0 {
					continue
				}
				it := m.List[g.rint(len(m.List))]
				if it.Value == nil || it.Value.Sign() <= 0 {
					continue
				}
				pk, c, s, val = cs.Candidates().PubKey(it.CandidateId), it.Coin, a, it.Value
				gas = 0
				fromWL = true
				break
			}
		}
		if t == tx.TypeUnbond {
			u := g.Build(t, tx.UnbondDataV3{PubKey: pk, Coin: c, Value: g.amount(val)}, s, gas)
			if fromWL {
				u.Note = "wl-source"
			}
			return u
		}
		to := g.pickPubKey(g.rint(6) != 0)
		if fromWL && g.rint(3) == 0 {
			to = g.pickPubKey(false) // possibly not a candidate (any more)
		}
		mv := g.Build(t, tx.MoveStakeData{FromPubKey: pk, ToPubKey: to, Coin: c, Value: g.amount(val)}, s, gas)
		if fromWL {
			mv.Note = "wl-source"
		}
		return mv
	case tx.TypeSetCandidateOnline, tx.TypeSetCandidateOffline, tx.TypeEditCandidate, tx.TypeEditCandidateCommission, tx.TypeEditCandidatePublicKey:
		pk := g.pickPubKey(true)
		if c := cs.Candidates().GetCandidate(pk); c != nil && g.rint(5) != 0 {
			s = c.OwnerAddress
			if (t == tx.TypeSetCandidateOnline || t == tx.TypeSetCandidateOffline) && g.rint(2) == 0 {
				s = c.ControlAddress
			}
			gas = 0
		}
		switch t {
		case tx.TypeSetCandidateOnline:
			return g.Build(t, tx.SetCandidateOnData{PubKey: pk}, s, gas)
		case tx.TypeSetCandidateOffline:
			return g.Build(t, tx.SetCandidateOffData{PubKey: pk}, s, gas)
		case tx.TypeEditCandidate:
			return g.Build(t, tx.EditCandidateData{PubKey: pk, RewardAddress: g.pickAddr(), OwnerAddress: g.pickAddr(), ControlAddress: g.pickAddr()}, s, gas)
		case tx.TypeEditCandidateCommission:
			return g.Build(t, tx.EditCandidateCommission{PubKey: pk, Commission: uint32(g.rint(105))}, s, gas)
		default:
			return g.Build(t, tx.EditCandidatePublicKeyData{PubKey: pk, NewPubKey: g.pickPubKey(false)}, s, gas)
		}
	case tx.TypeCreateMultisig, tx.TypeEditMultisig:
		n := 1 + g.rint(4)
		var ws []uint32
		var as []types.Address
		used := map[types.Address]bool{}
		sum := uint32(0)
		for i := 0; i < n; i++ {
			a := g.pickAddr()
			if used[a] && g.rint(10) != 0 {
				continue
			}
			used[a] = true
			w := uint32(1 + g.rint(5))
			if g.rint(30) == 0 {
				w = 1024
			}
			ws = append(ws, w)
			as = append(as, a)
			sum += w
		}
		th := uint32(1 + g.rint(int(sum)+1))
		if t == tx.TypeCreateMultisig {
			return g.Build(t, tx.CreateMultisigData{Threshold: th, Weights: ws, Addresses: as}, s, gas)
		}
		if len(g.W.Multis) > 0 && g.rint(4) != 0 {
			s = g.W.Multis[0].Addr
			gas = 0
			// keep the owners known so it stays controllable: same owners, same weights
			return g.Build(t, tx.EditMultisigData{Threshold: g.W.Multis[0].Threshold, Weights: g.W.Multis[0].Weights, Addresses: []types.Address{g.W.Addrs[0], g.W.Addrs[1], g.W.Addrs[2]}}, s, gas)
		}
		return g.Build(t, tx.EditMultisigData{Threshold: th, Weights: ws, Addresses: as}, s, gas)
	case tx.TypeSetHaltBlock:
		pk := g.pickPubKey(true)
		if c := cs.Candidates().GetCandidate(pk); c != nil && g.rint(5) != 0 {
			s = c.OwnerAddress
			gas = 0
		}
		return g.Build(t, tx.SetHaltBlockData{PubKey: pk, Height: g.voteHeight(height)}, s, gas)
	case tx.TypeVoteUpdate:
		pk := g.pickPubKey(true)
		if c := cs.Candidates().GetCandidate(pk); c != nil && g.rint(5) != 0 {
			s = c.OwnerAddress
			gas = 0
		}
		return g.Build(t, tx.VoteUpdateDataV230{PubKey: pk, Height: g.voteHeight(height), Version: []string{"v310", "v320", "v330", "v300"}[g.rint(4)]}, s, gas)
	case tx.TypeVoteCommission:
		pk := g.pickPubKey(true)
		if c := cs.Candidates().GetCandidate(pk); c != nil && g.rint(5) != 0 {
			s = c.OwnerAddress
			gas = 0
		}
		d := g.voteCommissionData(pk, g.voteHeight(height), g.rint(3))
		return g.Build(t, d, s, gas)
	case tx.TypeCreateSwapPool:
		c0, c1 := g.pickCoin(), g.pickCoin()
		coins := g.coinsOf(s)
		if len(coins) >= 2 {
			c0, c1 = coins[g.rint(len(coins))], coins[g.rint(len(coins))]
		}
		return g.Build(t, tx.CreateSwapPoolData{Coin0: c0, Coin1: c1, Volume0: g.amount(new(big.Int).Div(cs.Accounts().GetBalance(s, c0), big.NewInt(5))), Volume1: g.amount(new(big.Int).Div(cs.Accounts().GetBalance(s, c1), big.NewInt(5)))}, s, gas)
	case tx.TypeAddLiquidity:
		pairs := g.poolPairs()
		c0, c1 := g.pickCoin(), g.pickCoin()
		if len(pairs) > 0 && g.rint(10) != 0 {
			p := pairs[g.rint(len(pairs))]
			c0, c1 = p[0], p[1]
			if g.rint(2) == 0 {
				c0, c1 = c1, c0
			}
		}
		gas = g.gasAmong(s, gas, c0, c1)
		v0 := g.amount(new(big.Int).Div(cs.Accounts().GetBalance(s, c0), big.NewInt(10)))
		max1 := g.maxSell(cs.Accounts().GetBalance(s, c1))
		if sw := cs.Swap().GetSwapper(c0, c1); sw.Exists() && v0.Sign() == 1 && g.exact() {
			// a wallet without slippage tolerance: exactly what the pool asks for at the current reserves
			if lp := cs.Coins().GetCoinBySymbol(tx.LiquidityCoinSymbol(sw.GetID()), 0); lp != nil {
				if _, a1 := sw.CalculateAddLiquidity(v0, lp.Volume()); a1 != nil && a1.Sign() == 1 {
					max1 = g.nearQuote(a1)
				}
			}
		}
		return g.Build(t, tx.AddLiquidityDataV260{Coin0: c0, Coin1: c1, Volume0: v0, MaximumVolume1: max1}, s, gas)
	case tx.TypeRemoveLiquidity:
		pairs := g.poolPairs()
		c0, c1 := g.pickCoin(), g.pickCoin()
		var liq *big.Int
		if len(pairs) > 0 && g.rint(10) != 0 {
			p := pairs[g.rint(len(pairs))]
			c0, c1 = p[0], p[1]
			if g.rint(2) == 0 {
				c0, c1 = c1, c0
			}
			id := cs.Swap().GetSwapper(c0, c1).GetID()
			lp := cs.Coins().GetCoinBySymbol(tx.LiquidityCoinSymbol(id), 0)
			if lp != nil {
				// find a holder
				for _, a := range g.W.Addrs {
					if b := cs.Accounts().GetBalance(a, lp.ID()); b.Sign() > 0 {
						s, liq = a, b
						gas = 0
						break
					}
				}
			}
		}
		gas = g.gasAmong(s, gas, c0, c1)
		lq := g.amount(liq)
		min0, min1 := g.minBuy(), g.minBuy()
		if sw := cs.Swap().GetSwapper(c0, c1); sw.Exists() && lq.Sign() == 1 && g.exact() {
			// a wallet without slippage tolerance: exactly what the share is worth at the current reserves (two times out of
			// three), or at the reserves the fee exchange will leave when the fee goes through this very pool
			if f := g.feeOf(tx.RemoveLiquidityV240{}, gas); f.OK && g.rint(3) == 0 {
				sw = g.stepSwapper(c0, c1, &f)
			}
			if lp := cs.Coins().GetCoinBySymbol(tx.LiquidityCoinSymbol(sw.GetID()), 0); lp != nil && lp.Volume().Cmp(lq) >= 0 {
				a0, a1 := sw.Amounts(lq, lp.Volume())
				if a0 != nil && a1 != nil {
					min0, min1 = a0, a1
					switch g.rint(6) {
					case 0:
						min0 = g.nearQuote(a0)
					case 1:
						min1 = g.nearQuote(a1)
					}
				}
			}
		}
		return g.Build(t, tx.RemoveLiquidityV240{Coin0: c0, Coin1: c1, Liquidity: lq, MinimumVolume0: min0, MinimumVolume1: min1}, s, gas)
	case tx.TypeSellSwapPool, tx.TypeBuySwapPool, tx.TypeSellAllSwapPool:
		r := g.route(4)
		// pick a sender that holds r[0]
		for tries := 0; tries < 5 && cs.Accounts().GetBalance(s, r[0]).Sign() == 0; tries++ {
			s = g.pickAddr()
		}
		gas = g.gasAmong(s, g.gasCoinFor(s), r...)
		bal := cs.Accounts().GetBalance(s, r[0])
		// zero-slippage wallets: the limit is the current quote of the route. Either the plain quote of the reserves as they
		// are (what an estimate answers; the fee exchange may move a pool of the route afterwards) or the quote with the fee
		// exchange applied first (what the node will compute).
		exact := g.exact()
		withFee := g.rint(2) == 0
		switch t {
		case tx.TypeSellSwapPool:
			data := tx.SellSwapPoolDataV260{Coins: r, ValueToSell: g.amount(new(big.Int).Div(bal, big.NewInt(20))), MinimumValueToBuy: g.minBuy()}
			if exact {
				var fee *Fee
				if f := g.feeOf(data, gas); withFee && f.OK {
					fee = &f
				}
				if q := g.quoteSell(r, data.ValueToSell, fee); q != nil {
					data.MinimumValueToBuy = g.nearQuote(q)
					return g.Build(t, data, s, gas, plainTx)
				}
			}
			return g.Build(t, data, s, gas)
		case tx.TypeBuySwapPool:
			data := tx.BuySwapPoolDataV260{Coins: r, ValueToBuy: g.amount(pip(int64(1 + g.rint(300)))), MaximumValueToSell: g.maxSell(bal)}
			if exact {
				var fee *Fee
				if f := g.feeOf(data, gas); withFee && f.OK {
					fee = &f
				}
				if q := g.quoteBuy(r, data.ValueToBuy, fee); q != nil {
					data.MaximumValueToSell = g.nearQuote(q)
					return g.Build(t, data, s, gas, plainTx)
				}
			}
			return g.Build(t, data, s, gas)
		default:
			// the GasCoin field of a sell-all is ignored by the node (the fee is taken in the coin sold): wallets leave it 0,
			// copy the sold coin into it, or anything else
			gasField := r[0]
			switch g.rint(4) {
			case 0:
				gasField = 0
			case 1:
				gasField = g.pickCoin()
			}
			data := tx.SellAllSwapPoolDataV260{Coins: r, MinimumValueToBuy: g.minBuy()}
			if exact {
				if f := g.feeOf(data, r[0]); f.OK && bal.Cmp(f.InCoin) > 0 {
					var fee *Fee
					if withFee {
						fee = &f
					}
					if q := g.quoteSell(r, new(big.Int).Sub(bal, f.InCoin), fee); q != nil {
						data.MinimumValueToBuy = g.nearQuote(q)
						return g.Build(t, data, s, gasField, plainTx)
					}
				}
			}
			return g.Build(t, data, s, gasField)
		}
	case tx.TypeAddLimitOrder:
		if g.rint(100) < g.ExactPct/2 {
			// dust at the pool price of a pool that fees are exchanged through
			if xs := g.commissionPools(); len(xs) > 0 {
				if d := g.dustOrder(xs[g.rint(len(xs))]); d != nil {
					return d
				}
			}
		}
		pairs := g.poolPairs()
		cSell, cBuy := g.pickCoin(), g.pickCoin()
		if len(pairs) > 0 && g.rint(12) != 0 {
			p := pairs[g.rint(len(pairs))]
			cSell, cBuy = p[0], p[1]
			if g.rint(2) == 0 {
				cSell, cBuy = cBuy, cSell
			}
		}
		for tries := 0; tries < 5 && cs.Accounts().GetBalance(s, cSell).Sign() == 0; tries++ {
			s = g.pickAddr()
		}
		gas = g.gasAmong(s, g.gasCoinFor(s), cSell, cBuy)
		vs := g.amount(new(big.Int).Div(cs.Accounts().GetBalance(s, cSell), big.NewInt(30)))
		// price near the pool price: wantBuy = vs * r(buy)/r(sell) * k, k in [1.0, 1.6] mostly valid
		vb := big.NewInt(1)
		if sw := cs.Swap().GetSwapper(cSell, cBuy); sw != nil && sw.Exists() {
			rs, rb := sw.Reserves()
			if rs.Sign() > 0 {
				vb = new(big.Int).Div(new(big.Int).Mul(vs, rb), rs)
				k := int64(900 + 10*g.rint(80))
				if g.rint(3) == 0 {
					k = int64(1000 + g.rint(21)) // within 2 % of the pool price: ordinary trades end inside such orders
				}
				vb = vb.Div(vb.Mul(vb, big.NewInt(k)), big.NewInt(1000))
			}
		}
		return g.Build(t, tx.AddLimitOrderData{CoinToSell: cSell, ValueToSell: vs, CoinToBuy: cBuy, ValueToBuy: vb}, s, gas)
	case tx.TypeRemoveLimitOrder:
		next := g.N.LiveNextOrderID()
		id := uint32(1 + g.rint(int(next)+2))
		if o := cs.Swap().GetOrder(id); o != nil && g.W.KeyOf[o.Owner] != nil && g.rint(6) != 0 {
			s = o.Owner
			gas = g.gasAmong(s, 0, o.Coin0, o.Coin1)
		}
		return g.Build(t, tx.RemoveLimitOrderData{ID: id}, s, gas)
	case tx.TypeLockStake:
		return g.Build(t, tx.LockStakeData{}, s, gas)
	case tx.TypeLock:
		coins := g.coinsOf(s)
		c := g.pickCoin()
		if len(coins) > 0 {
			c = coins[g.rint(len(coins))]
		}
		due := uint32(height) + uint32(g.rint(40))
		if g.rint(10) == 0 {
			due = uint32(height) - uint32(g.rint(3))
		}
		return g.Build(t, tx.LockData{DueBlock: due, Coin: c, Value: g.amount(new(big.Int).Div(cs.Accounts().GetBalance(s, c), big.NewInt(20)))}, s, gas)
	case tx.TypeRedeemCheck:
		return g.redeemCheck(height)
	}
	return g.Build(tx.TypeSend, tx.SendData{Coin: 0, To: g.pickAddr(), Value: big.NewInt(1)}, s, 0)
}

// voteHeight picks the height a governance vote refers to.
func (g *Gen) voteHeight(height uint64) uint64 {
	if g.NearVotes {
		if g.rint(12) == 0 {
			return height - 1
		}
		return height + uint64(g.rint(4))
	}
	return height + uint64(g.rint(20)) - 2
}

func (g *Gen) minBuy() *big.Int {
	if g.rint(8) == 0 {
		return pip(int64(1 + g.rint(100000)))
	}
	return big.NewInt(int64(g.rint(2)))
}

func (g *Gen) maxSell(bal *big.Int) *big.Int {
	if g.rint(8) == 0 {
		return big.NewInt(int64(1 + g.rint(1000)))
	}
	if g.rint(4) == 0 {
		return bi("1000000000000000000000000000000000")
	}
	return new(big.Int).Set(bal)
}

func (g *Gen) voteCommissionData(pk types.Pubkey, h uint64, variant int) tx.VoteCommissionDataV3 {
	d := defaultCommission()
	f := func(s string) *big.Int {
		v := bi(s)
		if variant == 1 {
			v = new(big.Int).Mul(v, big.NewInt(2))
		}
		if variant == 2 {
			v = new(big.Int).Div(v, big.NewInt(2))
		}
		return v
	}
	coin := types.CoinID(0)
	return tx.VoteCommissionDataV3{
		PubKey: pk, Height: h, Coin: coin,
		PayloadByte: f(d.PayloadByte), Send: f(d.Send), BuyBancor: f(d.BuyBancor), SellBancor: f(d.SellBancor), SellAllBancor: f(d.SellAllBancor),
		BuyPoolBase: f(d.BuyPoolBase), BuyPoolDelta: f(d.BuyPoolDelta), SellPoolBase: f(d.SellPoolBase), SellPoolDelta: f(d.SellPoolDelta),
		SellAllPoolBase: f(d.SellAllPoolBase), SellAllPoolDelta: f(d.SellAllPoolDelta), CreateTicker3: f(d.CreateTicker3), CreateTicker4: f(d.CreateTicker4),
		CreateTicker5: f(d.CreateTicker5), CreateTicker6: f(d.CreateTicker6), CreateTicker7to10: f(d.CreateTicker7_10), CreateCoin: f(d.CreateCoin),
		CreateToken: f(d.CreateToken), RecreateCoin: f(d.RecreateCoin), RecreateToken: f(d.RecreateToken), DeclareCandidacy: f(d.DeclareCandidacy),
		Delegate: f(d.Delegate), Unbond: f(d.Unbond), RedeemCheck: f(d.RedeemCheck), SetCandidateOn: f(d.SetCandidateOn), SetCandidateOff: f(d.SetCandidateOff),
		CreateMultisig: f(d.CreateMultisig), MultisendBase: f(d.MultisendBase), MultisendDelta: f(d.MultisendDelta), EditCandidate: f(d.EditCandidate),
		SetHaltBlock: f(d.SetHaltBlock), EditTickerOwner: f(d.EditTickerOwner), EditMultisig: f(d.EditMultisig), EditCandidatePublicKey: f(d.EditCandidatePublicKey),
		CreateSwapPool: f(d.CreateSwapPool), AddLiquidity: f(d.AddLiquidity), RemoveLiquidity: f(d.RemoveLiquidity), EditCandidateCommission: f(d.EditCandidateCommission),
		MintToken: f(d.MintToken), BurnToken: f(d.BurnToken), VoteCommission: f(d.VoteCommission), VoteUpdate: f(d.VoteUpdate),
		FailedTx: f(d.FailedTx), AddLimitOrder: f(d.AddLimitOrder), RemoveLimitOrder: f(d.RemoveLimitOrder), MoveStake: f(d.MoveStake), LockStake: f(d.LockStake), Lock: f(d.Lock),
	}
}

var _ = commission.Price{}

// IssueCheck creates a signed check from issuer with a password key.
func (g *Gen) IssueCheck(issuer types.Address, coin, gasCoin types.CoinID, value *big.Int, due uint64, chain types.ChainID, nonceLen int) IssuedCheck {
	pass := detKey(int64(g.rint(1<<30)), 7)
	nonce := make([]byte, nonceLen)
	g.W.Rng.Read(nonce)
	c := check.Check{Nonce: nonce, ChainID: chain, DueBlock: due, Coin: coin, Value: value, GasCoin: gasCoin}
	lock, err := crypto.Sign(c.HashWithoutLock().Bytes(), pass)
	if err != nil {
		panic(err)
	}
	c.Lock = big.NewInt(0).SetBytes(lock)
	k := g.W.KeyOf[issuer]
	if k == nil {
		k = g.W.Keys[0]
	}
	if err := c.Sign(k); err != nil {
		panic(err)
	}
	raw, _ := rlp.EncodeToBytes(c)
	return IssuedCheck{Raw: raw, Pass: pass, Issuer: issuer, Coin: coin, GasCoin: gasCoin, Value: value, DueBlock: due, Nonce: nonce}
}

func proofFor(pass *ecdsa.PrivateKey, redeemer types.Address) [65]byte {
	var h types.Hash
	hw := sha3.NewLegacyKeccak256()
	_ = rlp.Encode(hw, []interface{}{redeemer})
	hw.Sum(h[:0])
	sig, err := crypto.Sign(h[:], pass)
	if err != nil {
		panic(err)
	}
	var p [65]byte
	copy(p[:], sig)
	return p
}

func (g *Gen) redeemCheck(height uint64) *GenTx {
	cs := g.cs()
	redeemer := g.pickAddr()
	// reuse an issued check sometimes (double redemption / other redeemer)
	if len(g.W.Checks) > 0 && g.rint(3) == 0 {
		ic := g.W.Checks[g.rint(len(g.W.Checks))]
		proofAddr := redeemer
		if g.rint(5) == 0 {
			proofAddr = g.pickAddr()
		}
		return g.Build(tx.TypeRedeemCheck, tx.RedeemCheckData{RawCheck: ic.Raw, Proof: proofFor(ic.Pass, proofAddr)}, redeemer, ic.GasCoin)
	}
	issuer := g.pickAddr()
	coins := g.coinsOf(issuer)
	coin := types.CoinID(0)
	if len(coins) > 0 {
		coin = coins[g.rint(len(coins))]
	}
	gasCoin := types.CoinID(0)
	if g.rint(4) == 0 && len(coins) > 0 {
		gasCoin = coins[g.rint(len(coins))]
	}
	due := height + uint64(g.rint(30))
	switch g.rint(12) {
	case 0:
		due = height - 1
	case 1:
		due = height
	}
	chain := g.W.Chain
	if g.rint(25) == 0 {
		chain = 9
	}
	nl := 1 + g.rint(16)
	if g.rint(25) == 0 {
		nl = 17
	}
	value := g.amount(new(big.Int).Div(cs.Accounts().GetBalance(issuer, coin), big.NewInt(10)))
	if g.exact() {
		// a check over (nearly) everything the issuer owns of the coin: value = balance - k, k around the redemption fee
		if g.rint(3) != 0 {
			gasCoin = coin
		}
		bal := cs.Accounts().GetBalance(issuer, coin)
		k := big.NewInt(0)
		if f := g.feeOf(tx.RedeemCheckData{}, gasCoin); f.OK {
			switch g.rint(6) {
			case 0:
				k = new(big.Int).Set(f.InCoin)
			case 1:
				k = new(big.Int).Sub(f.InCoin, big.NewInt(1))
			case 2:
				k = new(big.Int).Add(f.InCoin, big.NewInt(1))
			case 3:
				k = new(big.Int).Div(f.InCoin, big.NewInt(int64(2+g.rint(9))))
			case 4:
				k = big.NewInt(int64(g.rint(2)))
			default:
				k = new(big.Int).Mul(f.InCoin, big.NewInt(int64(2+g.rint(3))))
			}
		}
		if v := new(big.Int).Sub(bal, k); v.Sign() == 1 {
			value = v
			if due < height {
				due = height + uint64(g.rint(30))
			}
		}
	}
	ic := g.IssueCheck(issuer, coin, gasCoin, value, due, chain, nl)
	g.W.Checks = append(g.W.Checks, ic)
	txGas := gasCoin
	if g.rint(25) == 0 {
		txGas = g.pickCoin()
	}
	return g.Build(tx.TypeRedeemCheck, tx.RedeemCheckData{RawCheck: ic.Raw, Proof: proofFor(ic.Pass, redeemer)}, redeemer, txGas)
}

// malformed stream: corrupted bytes, wrong nonce/chain, forged signatures, replays.
func (g *Gen) malformed(height uint64) *GenTx {
	base := g.OfType(g.pickType(), height)
	kind := g.rint(10)
	switch kind {
	case 0: // bit flip
		raw := append([]byte{}, base.Raw...)
		if len(raw) > 0 {
			i := g.rint(len(raw))
			raw[i] ^= byte(1 << uint(g.rint(8)))
		}
		base.Raw = raw
		base.Note = "malformed:bitflip"
	case 1: // truncate
		base.Raw = base.Raw[:g.rint(len(base.Raw))]
		base.Note = "malformed:truncated"
	case 2: // random bytes
		raw := make([]byte, g.rint(200))
		g.W.Rng.Read(raw)
		base.Raw = raw
		base.Note = "malformed:random"
	case 3: // wrong nonce
		d := uint64(g.rint(3))
		gt := g.rebuild(base, func(t *tx.Transaction) {
			if d == 0 {
				t.Nonce = t.Nonce + 1
			} else if t.Nonce > 0 {
				t.Nonce = t.Nonce - 1
			}
		})
		gt.Note = "malformed:nonce"
		return gt
	case 4: // wrong chain
		gt := g.rebuild(base, func(t *tx.Transaction) { t.ChainID = types.ChainID(1 + g.rint(4)) })
		gt.Note = "malformed:chain"
		return gt
	case 5: // replay a recent tx; half of the time one that failed inside Run (C26: is its payer charged again?)
		if len(g.FailedRun) > 0 && g.rint(2) == 0 {
			base.Raw = g.FailedRun[g.rint(len(g.FailedRun))]
			base.Note = "malformed:replay-failed"
		} else if len(g.Recent) > 0 {
			base.Raw = g.Recent[g.rint(len(g.Recent))]
			base.Note = "malformed:replay"
		}
	case 6: // trailing bytes
		base.Raw = append(append([]byte{}, base.Raw...), byte(g.rint(256)))
		base.Note = "malformed:trailing"
	case 7: // huge payload
		gt := g.rebuild(base, func(t *tx.Transaction) { t.Payload = make([]byte, 9990+g.rint(30)) })
		gt.Note = "malformed:payload"
		return gt
	case 8: // signed by a key that is not the claimed multisig owner / wrong key
		gt := g.forgedMultisig(base)
		return gt
	default: // gas coin that does not exist
		gt := g.rebuild(base, func(t *tx.Transaction) { t.GasCoin = types.CoinID(500 + g.rint(100)) })
		gt.Note = "malformed:gascoin"
		return gt
	}
	return base
}

func (g *Gen) rebuild(base *GenTx, mod func(*tx.Transaction)) *GenTx {
	return g.Build(base.Type, base.Data, base.Sender, base.GasCoin, mod)
}

// forgedMultisig builds a multisig tx with duplicated / foreign / under-weight signatures.
func (g *Gen) forgedMultisig(base *GenTx) *GenTx {
	if len(g.W.Multis) == 0 {
		return base
	}
	ms := g.W.Multis[0]
	bData, _ := rlp.EncodeToBytes(tx.SendData{Coin: 0, To: g.pickAddr(), Value: big.NewInt(1000)})
	t0 := tx.Transaction{Nonce: g.cs().Accounts().GetNonce(ms.Addr) + 1, ChainID: g.W.Chain, GasPrice: 1, GasCoin: 0, Type: tx.TypeSend, Data: bData, SignatureType: tx.SigTypeMulti}
	t0.SetMultisigAddress(ms.Addr)
	gt := &GenTx{Type: tx.TypeSend, Sender: ms.Addr, GasCoin: 0, Nonce: t0.Nonce}
	var ks []int
	switch g.rint(4) {
	case 0: // duplicate of the heaviest owner
		ks = []int{2, 2}
		gt.Note = "malformed:msig-duplicate"
	case 1: // foreign keys
		ks = []int{5, 6, 7}
		gt.Note = "malformed:msig-foreign"
	case 2: // under weight
		ks = []int{0}
		gt.Note = "malformed:msig-underweight"
	default: // too many
		ks = []int{0, 1, 2, 3}
		gt.Note = "malformed:msig-toomany"
	}
	for _, k := range ks {
		if k >= len(g.W.Keys) {
			k = k % len(g.W.Keys)
		}
		_ = t0.Sign(g.W.Keys[k])
		gt.Signers = append(gt.Signers, g.W.Addrs[k])
	}
	raw, _ := rlp.EncodeToBytes(t0)
	gt.Raw = raw
	gt.Data = tx.SendData{}
	return gt
}

func fmtAddr(a types.Address) string { return fmt.Sprintf("%x", a[:]) }

// orderDance: a taker trade that partially fills the best committed order of some pool side, followed (same block)
// by the owner's cancellation of exactly that order. Returns nil when no suitable committed order exists.
func (g *Gen) orderDance(view Dump) []*GenTx {
	type ord struct {
		id             uint32
		c0, c1         types.CoinID
		sale           bool
		v0, v1         *big.Int
		owner          types.Address
	}
	var all []ord
	for k, v := range view {
		if !strings.HasPrefix(k, "o ") {
			continue
		}
		var o ord
		var sale, own string
		var s0, s1 string
		var hgt uint64
		if _, err := fmt.Sscanf(k, "o %d", &o.id); err != nil {
			continue
		}
		if _, err := fmt.Sscanf(v, "%d %d %s %s %s %s %d", &o.c0, &o.c1, &sale, &s0, &s1, &own, &hgt); err != nil {
			continue
		}
		o.sale = sale == "true"
		o.v0, o.v1 = bi(s0), bi(s1)
		if b, err := hex.DecodeString(own); err == nil && len(b) == 20 {
			copy(o.owner[:], b)
		}
		if g.W.KeyOf[o.owner] == nil || o.v0.Sign() <= 0 || o.v1.Sign() <= 0 {
			continue
		}
		all = append(all, o)
	}
	if len(all) == 0 {
		return nil
	}
	sort.Slice(all, func(i, j int) bool { return all[i].id < all[j].id })
	pick := all[g.rint(len(all))]
	// best order of the same pool side: most bought coin per sold coin for the taker
	best := pick
	for _, o := range all {
		if o.c0 == pick.c0 && o.c1 == pick.c1 && o.sale == pick.sale {
			// compare o.v1/o.v0 > best.v1/best.v0
			if new(big.Int).Mul(o.v1, best.v0).Cmp(new(big.Int).Mul(best.v1, o.v0)) > 0 {
				best = o
			}
		}
	}
	sellCoin, buyCoin := best.c0, best.c1
	if !best.sale {
		sellCoin, buyCoin = best.c1, best.c0
	}
	amount := new(big.Int).Div(new(big.Int).Mul(best.v0, big.NewInt(int64(30+g.rint(50)))), big.NewInt(100))
	var taker types.Address
	found := false
	for _, a := range g.W.Addrs {
		if a != best.owner && g.cs().Accounts().GetBalance(a, sellCoin).Cmp(new(big.Int).Mul(amount, big.NewInt(2))) > 0 {
			taker, found = a, true
			break
		}
	}
	if !found {
		return nil
	}
	t1 := g.Build(tx.TypeSellSwapPool, tx.SellSwapPoolDataV260{Coins: []types.CoinID{sellCoin, buyCoin}, ValueToSell: amount, MinimumValueToBuy: big.NewInt(1)}, taker, 0)
	t1.Note = "dance:fill"
	t2 := g.Build(tx.TypeRemoveLimitOrder, tx.RemoveLimitOrderData{ID: best.id}, best.owner, 0)
	t2.Note = "dance:cancel"
	return []*GenTx{t1, t2}
}
