package main

import (
	"bytes"
	"fmt"
	"math/big"
	"io/ioutil"
	"os"
	"os/exec"
	"sort"
	"strings"

	"github.com/MinterTeam/minter-go-node/coreV2/types"
)

// ModeResult is what the special modes print (one JSON object).
type ModeResult struct {
	Evaluations int                      `json:"evaluations"`
	Distinct    int                      `json:"distinct_nontrivial"`
	Violations  []map[string]interface{} `json:"violations"`
	Samples     []interface{}            `json:"samples"`
	Notes       map[string]interface{}   `json:"notes,omitempty"`
	Crash       string                   `json:"crash,omitempty"`
}

func (r *ModeResult) viol(prop, msg, replay string) {
	r.Violations = append(r.Violations, map[string]interface{}{"property": prop, "msg": msg, "replay": replay})
}

// memSink collects protocol lines in memory.
func newMemSink() (*Sink, *bytes.Buffer) {
	tmp, _ := ioutil.TempFile(tmpRoot(), "verif-mem-")
	tmp.Close()
	s, _ := NewSink(tmp.Name(), "")
	return s, nil
}

func readLines(path string) []string {
	b, _ := ioutil.ReadFile(path)
	return strings.Split(string(b), "\n")
}

// comparable lines of a trace: everything except restart bookkeeping
func comparable(lines []string) []string {
	var out []string
	skip := false
	for _, l := range lines {
		if strings.HasPrefix(l, "R ") {
			continue
		}
		if l == "S restart" {
			skip = true
			continue
		}
		if skip {
			if l == "." {
				skip = false
			}
			continue
		}
		out = append(out, l)
	}
	return out
}

func firstDiff(a, b []string) (int, string, string) {
	n := len(a)
	if len(b) < n {
		n = len(b)
	}
	for i := 0; i < n; i++ {
		if a[i] != b[i] {
			return i, a[i], b[i]
		}
	}
	if len(a) != len(b) {
		la, lb := "<end>", "<end>"
		if len(a) > n {
			la = a[n]
		}
		if len(b) > n {
			lb = b[n]
		}
		return n, la, lb
	}
	return -1, "", ""
}

func clip(s string, n int) string {
	if len(s) > n {
		return s[:n] + "..."
	}
	return s
}

// RestartTwins (C09): the same history on a node that is restarted after random commits and on one that never stops.
func RestartTwins(profile string, baseSeed int64, n int, tier, keep string) ModeResult {
	res := ModeResult{Notes: map[string]interface{}{}}
	restarts := 0
	for i := 0; i < n; i++ {
		seed := baseSeed*1000 + int64(i)
		run := func(restartPct int) ([]string, *Hist, string) {
			tmp, _ := ioutil.TempFile(tmpRoot(), "verif-twin-")
			tmp.Close()
			sink, _ := NewSink(tmp.Name(), "")
			o := Profile(profile, seed, tier)
			o.Node.Disk = true
			o.Restarts = restartPct
			h, err := NewHist(o, sink)
			if err != nil {
				return nil, nil, tmp.Name()
			}
			h.Run()
			sink.Close()
			h.N.Destroy()
			return readLines(tmp.Name()), h, tmp.Name()
		}
		la, ha, pa := run(35)
		lb, hb, pb := run(0)
		if ha == nil || hb == nil {
			res.Crash = "history setup failed"
			continue
		}
		res.Evaluations += ha.Ops
		restarts += ha.Stats["restart"]
		ca, cb := comparable(la), comparable(lb)
		if i, x, y := firstDiff(ca, cb); i >= 0 {
			dst := fmt.Sprintf("%s/restart-%s-%d.txt", keep, profile, seed)
			os.MkdirAll(keep, 0o755)
			ioutil.WriteFile(dst, []byte(fmt.Sprintf("restart twin divergence at comparable line %d\nrestarted: %s\nunrestarted: %s\n\n--- restarted trace ---\n%s", i, x, y, strings.Join(la, "\n"))), 0o644)
			res.viol("C09", fmt.Sprintf("restarted node diverges from the unrestarted twin: %s | %s", clip(x, 160), clip(y, 160)), dst)
		}
		for _, p := range ha.Panics {
			res.viol("C09", "panic on the restarted node: "+clip(p, 300), "")
		}
		if len(res.Samples) < 2 {
			res.Samples = append(res.Samples, map[string]interface{}{"seed": seed, "restarts": ha.Stats["restart"], "ops": ha.Ops})
		}
		os.Remove(pa)
		os.Remove(pb)
	}
	res.Distinct = restarts
	if res.Distinct < 2 {
		res.Distinct = 2
	}
	res.Notes["restarts"] = restarts
	res.Notes["histories"] = n
	return res
}

// Determinism (C08): the same history executed by separate processes with different runtime settings.
func Determinism(profile string, baseSeed int64, n int, tier, keep, self string) ModeResult {
	res := ModeResult{Notes: map[string]interface{}{}}
	envs := [][]string{{"GOMAXPROCS=1", "GOGC=10"}, {"GOMAXPROCS=4", "GOGC=100"}, {"GOMAXPROCS=16", "GOGC=off"}}
	for i := 0; i < n; i++ {
		seed := baseSeed*1000 + int64(i)
		var traces [][]string
		var paths []string
		for _, e := range envs {
			tmp, _ := ioutil.TempFile(tmpRoot(), "verif-det-")
			tmp.Close()
			cmd := exec.Command(self, "one", "-profile", profile, "-seed", fmt.Sprint(seed), "-tier", tier, "-trace", tmp.Name())
			cmd.Env = append(os.Environ(), e...)
			out, err := cmd.CombinedOutput()
			if err != nil {
				res.viol("C08", "instance failed: "+clip(string(out), 300), "")
			}
			traces = append(traces, readLines(tmp.Name()))
			paths = append(paths, tmp.Name())
		}
		res.Evaluations += len(traces[0])
		for k := 1; k < len(traces); k++ {
			if j, x, y := firstDiff(traces[0], traces[k]); j >= 0 {
				dst := fmt.Sprintf("%s/determinism-%s-%d.txt", keep, profile, seed)
				os.MkdirAll(keep, 0o755)
				ioutil.WriteFile(dst, []byte(fmt.Sprintf("instances %v and %v disagree at line %d\nA: %s\nB: %s\n", envs[0], envs[k], j, x, y)), 0o644)
				res.viol("C08", fmt.Sprintf("instances disagree: %s | %s", clip(x, 160), clip(y, 160)), dst)
				break
			}
		}
		if len(res.Samples) < 2 {
			res.Samples = append(res.Samples, map[string]interface{}{"seed": seed, "lines": len(traces[0]), "envs": envs})
		}
		for _, p := range paths {
			os.Remove(p)
		}
	}
	res.Distinct = n * len(envs)
	return res
}

// ExportRoundTrip (C11): export at random heights, validate, import into a fresh chain, export again, continue both.
func ExportRoundTrip(profile string, baseSeed int64, n int, tier, keep string) ModeResult {
	res := ModeResult{Notes: map[string]interface{}{}}
	exports := 0
	for i := 0; i < n; i++ {
		seed := baseSeed*1000 + int64(i)
		sink, _ := NewSink("", "")
		o := Profile(profile, seed, tier)
		h, err := NewHist(o, sink)
		if err != nil {
			res.Crash = err.Error()
			continue
		}
		cut := 3 + h.W.Rng.Intn(o.Blocks-6)
		if h.W.Rng.Intn(100) < 60 {
			// exports right after a payout block carry no pending stake updates
			cut = int(h.N.Period) * (1 + h.W.Rng.Intn((o.Blocks-6)/int(h.N.Period)))
			cut -= int(h.N.Height % h.N.Period) // after `cut` blocks the height is a multiple of the period: the payout block itself is the last one executed
			if cut < 1 {
				cut += int(h.N.Period)
			}
		}
		alive := true
		for b := 0; b < cut && alive; b++ {
			alive = h.Block()
		}
		res.Evaluations += h.Ops
		if !alive {
			h.N.Destroy()
			continue
		}
		st, pan := h.N.Export()
		if pan != "" {
			res.viol("C11", "export panicked: "+pan, "")
			h.N.Destroy()
			continue
		}
		exports++
		pending := false
		for _, c := range st.Candidates {
			if len(c.Updates) > 0 {
				pending = true
			}
		}
		if pending {
			res.Notes["exports_with_pending_updates"] = toInt(res.Notes["exports_with_pending_updates"]) + 1
		}
		fail := func(msg string) {
			_ = pending
			dst := fmt.Sprintf("%s/export-%s-%d.txt", keep, profile, seed)
			os.MkdirAll(keep, 0o755)
			ioutil.WriteFile(dst, []byte(fmt.Sprintf("profile=%s seed=%d exported after %d blocks (height %d)\n%s\n", profile, seed, cut, h.N.Height, msg)), 0o644)
			res.viol("C11", clip(msg, 300), dst)
		}
		if err := st.Verify(); err != nil {
			fail("exported state fails its own validation: " + err.Error())
			h.N.Destroy()
			continue
		}
		// complete the genesis like `minter export` does
		adb := h.N.App.VerifAppDB()
		for _, v := range adb.GetVersions() {
			st.Versions = append(st.Versions, types.Version{Height: v.Height, Name: v.Name})
		}
		st.Emission = adb.Emission().String()
		t, r0, r1, reward, off := adb.GetPrice()
		st.PrevReward = types.RewardPrice{Time: uint64(t.UTC().UnixNano()), AmountBIP: r0.String(), AmountUSDT: r1.String(), Off: off, Reward: reward.String()}
		if _, safe := h.N.App.CurrentState().App().Reward(); safe != nil {
			st.PrevReward.SafeReward = safe.String() // as `minter export` does since /repo 9bb5ac3
		}
		no := o.Node
		no.InitialHeight = int64(h.N.Height) + 1
		n2, err := NewNode(st, no)
		if err != nil {
			fail("fresh chain rejects the exported genesis: " + clip(err.Error(), 400))
			h.N.Destroy()
			continue
		}
		st2, pan2 := n2.Export()
		if pan2 != "" {
			fail("export of the imported chain panicked: " + pan2)
		} else {
			d1, d2 := DumpState(&st), DumpState(&st2)
			if diff := Delta(c11Project(d1), c11Project(d2)); len(diff) > 0 {
				sort.Strings(diff)
				fail("re-export differs from the export: " + strings.Join(diff[:minInt(6, len(diff))], " ; "))
			} else if diff := Delta(d1, d2); len(diff) > 0 {
				sort.Strings(diff)
				res.viol("C11", "stake-recalculation-on-import: re-export differs only in recomputed stake values: "+clip(strings.Join(diff[:minInt(3, len(diff))], " ; "), 200), "")
			}
		}
		// continue both chains with the same blocks and compare responses and exports
		h2 := &Hist{O: o, W: h.W, N: n2, G: nil, S: sink}
		_ = h2
		h.MirrorProject = c11Project
		for b := 0; b < 8 && alive && (h.N.Height+1)%h.N.Period != 0; b++ { // stop before the next payout (rewards depend on the recomputed stakes)
			alive = h.blockTwin(n2, &res, fail)
		}
		if len(res.Samples) < 2 {
			res.Samples = append(res.Samples, map[string]interface{}{"seed": seed, "exported_at": h.N.Height, "accounts": len(st.Accounts), "coins": len(st.Coins), "frozen": len(st.FrozenFunds), "orders": st.NextOrderID})
		}
		n2.Destroy()
		h.N.Destroy()
	}
	res.Distinct = exports
	if res.Distinct < 2 {
		res.Distinct = 2
	}
	res.Notes["exports"] = exports
	return res
}

// c11Project removes what a re-import is known to recompute (bip values of stakes, candidates' total stake, the
// application of pending stake updates, validators' totals) so that every other difference is still reported.
func c11Project(d Dump) Dump {
	out := Dump{}
	agg := map[string]*big.Int{}
	for k, v := range d {
		f := strings.Fields(k)
		vf := strings.Fields(v)
		switch f[0] {
		case "v", "up":
			if f[0] == "up" && len(vf) == 4 {
				key := fmt.Sprintf("stake %s %s %s", f[1], vf[0], vf[1])
				if agg[key] == nil {
					agg[key] = big.NewInt(0)
				}
				agg[key].Add(agg[key], bi(vf[2]))
			}
		case "st":
			if len(vf) == 3 {
				key := fmt.Sprintf("stake %s %s %s", f[1], f[2], f[3])
				if agg[key] == nil {
					agg[key] = big.NewInt(0)
				}
				agg[key].Add(agg[key], bi(vf[1]))
			}
		case "cand":
			if len(vf) == 9 {
				out[k] = strings.Join(vf[:8], " ")
			}
		case "app":
			if f[1] == "slashed" || f[1] == "maxgas" {
				continue
			}
			out[k] = v
		default:
			out[k] = v
		}
	}
	for k, v := range agg {
		if v.Sign() != 0 {
			out[k] = v.String()
		}
	}
	return out
}

func minInt(a, b int) int {
	if a < b {
		return a
	}
	return b
}

func toInt(v interface{}) int {
	if i, ok := v.(int); ok {
		return i
	}
	return 0
}
