package main

import (
	"math/big"
	"sort"

	"github.com/MinterTeam/minter-go-node/coreV2/types"
)

// Equal total stakes at the two places where the node cuts a ranking of the candidates (genesis with more than 100 candidates):
//   - rank 100 of the (stake desc, id asc) order: RecalculateStakesV2 removes everything behind it,
//   - rank 64 of the (stake desc, id desc) order among the online candidates: GetNewCandidates takes the validators from the front.
// Who survives / validates inside a group of exactly equal totals is decided by the id tie-break alone.

const candidatesLimit = 100 // the literal of RecalculateStakesV2
const validatorsLimit = 64  // GetValidatorsCountForBlock

// offlineOneIn: chance 1/n that a non-validator candidate of the genesis is offline. With more than 100 candidates enough of
// them stay online for the validator limit to cut the ranking.
func (w *World) offlineOneIn() int {
	if w.GenOpts.Candidates > candidatesLimit {
		return 4
	}
	return 2
}

// splitParts splits total into 1..3 positive parts (stakes of different owners that add up to exactly total).
func (w *World) splitParts(total *big.Int) []*big.Int {
	n := 1 + w.Rng.Intn(3)
	rest := new(big.Int).Set(total)
	var parts []*big.Int
	for k := 1; k < n; k++ {
		p := new(big.Int).Div(rest, big.NewInt(int64(2+w.Rng.Intn(3))))
		if p.Sign() <= 0 {
			break
		}
		parts = append(parts, p)
		rest = new(big.Int).Sub(rest, p)
	}
	return append(parts, rest)
}

// tieGroupAtLimit picks, among the non-validator candidates of a genesis with more than 100 candidates, six that get exactly the
// same total stake E (below the 2000 BIP every other candidate has at least) and, below them, as many candidates with distinct
// smaller totals as are needed for rank 100 to fall into the middle of the group: three members survive the first
// recalculation, three are removed. Returns candidate index -> base-coin stake values; empty for up to 100 candidates.
func (w *World) tieGroupAtLimit() map[int][]*big.Int {
	o := w.GenOpts
	res := map[int][]*big.Int{}
	over := o.Candidates - candidatesLimit
	if over <= 0 || o.Candidates-o.ValidatorN < 8 {
		return res
	}
	r := w.Rng
	inTail := 3 // members of the group behind rank 100
	if over < inTail {
		inTail = over
	}
	below := over - inTail
	perm := r.Perm(o.Candidates - o.ValidatorN)
	if 6+below > len(perm) {
		return res
	}
	e := new(big.Int).Add(pip(1200+int64(r.Intn(600))), big.NewInt(int64(r.Intn(1000000000))))
	for k := 0; k < 6; k++ {
		res[o.ValidatorN+perm[k]] = w.splitParts(e)
	}
	for k := 0; k < below; k++ { // strictly weaker, pairwise different
		v := new(big.Int).Sub(e, pip(int64(100+50*k+r.Intn(40))))
		res[o.ValidatorN+perm[6+k]] = []*big.Int{v}
	}
	return res
}

// tieGroupAtValidatorCut gives the six online candidates around position 64 of the stake ranking the same total stake
// (base-coin stakes only, so the total is exact whatever the custom coins are worth). Positions are estimated with custom-coin
// stakes at face value; the histories count how often the group really straddles the cut (stat gen.tie-at-validator-cut).
func (w *World) tieGroupAtValidatorCut(st *types.AppState, volumes map[uint64]*big.Int) {
	if w.GenOpts.Candidates <= candidatesLimit {
		return
	}
	est := func(c *types.Candidate) *big.Int {
		t := big.NewInt(0)
		for _, s := range c.Stakes {
			t.Add(t, bi(s.Value))
		}
		return t
	}
	var online []int
	for i := range st.Candidates {
		if st.Candidates[i].Status == 2 && est(&st.Candidates[i]).Cmp(pip(1000)) >= 0 {
			online = append(online, i)
		}
	}
	if len(online) < validatorsLimit+3 {
		return
	}
	sort.SliceStable(online, func(a, b int) bool { return est(&st.Candidates[online[a]]).Cmp(est(&st.Candidates[online[b]])) > 0 })
	e := new(big.Int).Add(est(&st.Candidates[online[validatorsLimit-1]]), big.NewInt(int64(w.Rng.Intn(1000000000))))
	for _, ci := range online[validatorsLimit-3 : validatorsLimit+3] {
		c := &st.Candidates[ci]
		if ci < w.GenOpts.ValidatorN {
			continue // the genesis validators keep the stake recorded in the validator list
		}
		for _, s := range c.Stakes {
			volumes[s.Coin] = new(big.Int).Sub(volOr0(volumes, s.Coin), bi(s.Value))
		}
		c.Stakes = nil
		for k, v := range w.splitParts(e) {
			c.Stakes = append(c.Stakes, types.Stake{Owner: w.Addrs[(ci+k)%len(w.Addrs)], Coin: 0, Value: v.String(), BipValue: v.String()})
			volumes[0] = new(big.Int).Add(volOr0(volumes, 0), v)
		}
		c.TotalBipStake = e.String()
	}
}

// tieStats counts, after InitChain, whether candidates of exactly equal total stake sit on both sides of the validator cut
// (evidence that the boundary scenario was reached; the pruning boundary is reached by construction).
func (h *Hist) tieStats() {
	if h.W.GenOpts.Candidates <= candidatesLimit {
		return
	}
	cs := h.N.App.CurrentState()
	isVal := map[types.Pubkey]bool{}
	var minVal *big.Int
	for _, v := range cs.Validators().GetValidators() {
		isVal[v.PubKey] = true
		if minVal == nil || v.GetTotalBipStake().Cmp(minVal) < 0 {
			minVal = v.GetTotalBipStake()
		}
	}
	if minVal == nil {
		return
	}
	in, out := 0, 0
	for _, c := range cs.Candidates().GetCandidates() {
		if c.Status == 2 && c.GetTotalBipStake().Cmp(minVal) == 0 {
			if isVal[c.PubKey] {
				in++
			} else {
				out++
			}
		}
	}
	h.Stats["gen.candidates-after-init"] = len(cs.Candidates().GetCandidates())
	h.Stats["gen.validators-after-init"] = len(isVal)
	if in > 0 && out > 0 {
		h.Stats["gen.tie-at-validator-cut"]++
	}
}
