package main

import (
	"fmt"
	"math/big"
	"reflect"
	"sort"
	"strings"

	"github.com/MinterTeam/minter-go-node/coreV2/state/commission"

	"github.com/MinterTeam/minter-go-node/coreV2/types"
)

// Canonical state dump: a map from key to value, both plain ASCII without tabs.
// Keys are designed so that the Lean side can parse each line independently.
//
//	b <addr> <coin>                -> amount
//	n <addr>                       -> nonce
//	ms <addr>                      -> threshold addr:weight,...
//	ls <addr>                      -> lockStakeUntil
//	c <id>                         -> symbol version volume reserve crr maxSupply owner mintable burnable
//	cand <id>                      -> pubkey owner reward control commission status jailedUntil lastEditH totalBip
//	st <candId> <owner> <coin>     -> idx value bip
//	up <candId> <idx>              -> owner coin value bip
//	wl <candId> <owner> <coin>     -> value
//	ff <height> <idx>              -> addr candKey candId coin value moveTo
//	p <c0> <c1>                    -> id r0 r1
//	o <id>                         -> c0 c1 isSale v0 v1 owner height
//	v <pubkey>                     -> totalBip accum absentBits tmAddress
//	uc <hash>                      -> 1
//	h <height> <pubkey>            -> 1
//	cv <height> <pubkey>           -> hash-of-commission
//	uv <height> <pubkey>           -> version
//	blk <pubkey>                   -> 1
//	del <id>                       -> pubkey
//	app <field>                    -> value
//	com <field>                    -> value
type Dump map[string]string

func hexs(b []byte) string { return fmt.Sprintf("%x", b) }

func DumpState(st *types.AppState) Dump {
	d := Dump{}
	for _, a := range st.Accounts {
		ad := hexs(a.Address[:])
		for _, b := range a.Balance {
			if b.Value != "0" {
				d[fmt.Sprintf("b %s %d", ad, b.Coin)] = b.Value
			}
		}
		if a.Nonce != 0 {
			d["n "+ad] = fmt.Sprint(a.Nonce)
		}
		if a.MultisigData != nil {
			var parts []string
			for i, x := range a.MultisigData.Addresses {
				parts = append(parts, fmt.Sprintf("%s:%d", hexs(x[:]), a.MultisigData.Weights[i]))
			}
			d["ms "+ad] = fmt.Sprintf("%d %s", a.MultisigData.Threshold, strings.Join(parts, ","))
		}
		if a.LockStakeUntilBlock != 0 {
			d["ls "+ad] = fmt.Sprint(a.LockStakeUntilBlock)
		}
	}
	for _, c := range st.Coins {
		owner := "-"
		if c.OwnerAddress != nil {
			owner = hexs(c.OwnerAddress[:])
		}
		res := c.Reserve
		if res == "" {
			res = "0"
		}
		d[fmt.Sprintf("c %d", c.ID)] = fmt.Sprintf("%s %d %s %s %d %s %s %v %v", c.Symbol.String(), c.Version, c.Volume, res, c.Crr, c.MaxSupply, owner, c.Mintable, c.Burnable)
	}
	for _, c := range st.Candidates {
		d[fmt.Sprintf("cand %d", c.ID)] = fmt.Sprintf("%s %s %s %s %d %d %d %d %s", hexs(c.PubKey[:]), hexs(c.OwnerAddress[:]), hexs(c.RewardAddress[:]), hexs(c.ControlAddress[:]), c.Commission, c.Status, c.JailedUntil, c.LastEditCommissionHeight, c.TotalBipStake)
		for i, s := range c.Stakes {
			d[fmt.Sprintf("st %d %s %d", c.ID, hexs(s.Owner[:]), s.Coin)] = fmt.Sprintf("%d %s %s", i, s.Value, s.BipValue)
		}
		for i, s := range c.Updates {
			d[fmt.Sprintf("up %d %d", c.ID, i)] = fmt.Sprintf("%s %d %s %s", hexs(s.Owner[:]), s.Coin, s.Value, s.BipValue)
		}
	}
	for _, w := range st.Waitlist {
		k := fmt.Sprintf("wl %d %s %d", w.CandidateID, hexs(w.Owner[:]), w.Coin)
		if old, ok := d[k]; ok { // duplicates are summed textually: keep both visible
			d[k] = old + "+" + w.Value
		} else {
			d[k] = w.Value
		}
	}
	idx := map[uint64]int{}
	for _, f := range st.FrozenFunds {
		ck := "-"
		if f.CandidateKey != nil {
			ck = hexs(f.CandidateKey[:])
		}
		i := idx[f.Height]
		idx[f.Height]++
		d[fmt.Sprintf("ff %d %d", f.Height, i)] = fmt.Sprintf("%s %s %d %d %s %d", hexs(f.Address[:]), ck, f.CandidateID, f.Coin, f.Value, f.MoveToCandidateID)
	}
	for _, p := range st.Pools {
		d[fmt.Sprintf("p %d %d", p.Coin0, p.Coin1)] = fmt.Sprintf("%d %s %s", p.ID, p.Reserve0, p.Reserve1)
		for _, o := range p.Orders {
			d[fmt.Sprintf("o %d", o.ID)] = fmt.Sprintf("%d %d %v %s %s %s %d", p.Coin0, p.Coin1, o.IsSale, o.Volume0, o.Volume1, hexs(o.Owner[:]), o.Height)
		}
	}
	for _, v := range st.Validators {
		d["v "+hexs(v.PubKey[:])] = validatorLine(v.TotalBipStake, v.AccumReward, v.AbsentTimes, v.PubKey)
	}
	for _, u := range st.UsedChecks {
		d["uc "+string(u)] = "1"
	}
	for _, h := range st.HaltBlocks {
		d[fmt.Sprintf("h %d %s", h.Height, hexs(h.CandidateKey[:]))] = "1"
	}
	for _, cv := range st.CommissionVotes {
		for _, pk := range cv.Votes {
			d[fmt.Sprintf("cv %d %s", cv.Height, hexs(pk[:]))] = commissionDigest(cv.Commission)
		}
	}
	for _, uv := range st.UpdateVotes {
		for _, pk := range uv.Votes {
			d[fmt.Sprintf("uv %d %s", uv.Height, hexs(pk[:]))] = uv.Version
		}
	}
	for _, b := range st.BlockListCandidates {
		d["blk "+hexs(b[:])] = "1"
	}
	for _, dc := range st.DeletedCandidates {
		d[fmt.Sprintf("del %d", dc.ID)] = hexs(dc.PubKey[:])
	}
	d["app slashed"] = st.TotalSlashed
	d["app maxgas"] = fmt.Sprint(st.MaxGas)
	d["app nextorder"] = fmt.Sprint(st.NextOrderID)
	d["app ncoins"] = fmt.Sprint(len(st.Coins))
	for k, v := range commissionFields(st.Commission) {
		d["com "+k] = v
	}
	return d
}

func commissionFields(c types.Commission) map[string]string {
	return map[string]string{
		"coin": fmt.Sprint(c.Coin), "payload_byte": c.PayloadByte, "send": c.Send, "buy_bancor": c.BuyBancor, "sell_bancor": c.SellBancor,
		"sell_all_bancor": c.SellAllBancor, "buy_pool_base": c.BuyPoolBase, "buy_pool_delta": c.BuyPoolDelta, "sell_pool_base": c.SellPoolBase,
		"sell_pool_delta": c.SellPoolDelta, "sell_all_pool_base": c.SellAllPoolBase, "sell_all_pool_delta": c.SellAllPoolDelta,
		"create_ticker3": c.CreateTicker3, "create_ticker4": c.CreateTicker4, "create_ticker5": c.CreateTicker5, "create_ticker6": c.CreateTicker6,
		"create_ticker7_10": c.CreateTicker7_10, "create_coin": c.CreateCoin, "create_token": c.CreateToken, "recreate_coin": c.RecreateCoin,
		"recreate_token": c.RecreateToken, "declare_candidacy": c.DeclareCandidacy, "delegate": c.Delegate, "unbond": c.Unbond,
		"redeem_check": c.RedeemCheck, "set_candidate_on": c.SetCandidateOn, "set_candidate_off": c.SetCandidateOff, "create_multisig": c.CreateMultisig,
		"multisend_base": c.MultisendBase, "multisend_delta": c.MultisendDelta, "edit_candidate": c.EditCandidate, "set_halt_block": c.SetHaltBlock,
		"edit_ticker_owner": c.EditTickerOwner, "edit_multisig": c.EditMultisig, "edit_candidate_public_key": c.EditCandidatePublicKey,
		"create_swap_pool": c.CreateSwapPool, "add_liquidity": c.AddLiquidity, "remove_liquidity": c.RemoveLiquidity,
		"edit_candidate_commission": c.EditCandidateCommission, "mint_token": c.MintToken, "burn_token": c.BurnToken, "vote_commission": c.VoteCommission,
		"vote_update": c.VoteUpdate, "failed_tx": c.FailedTx, "add_limit_order": c.AddLimitOrder, "remove_limit_order": c.RemoveLimitOrder,
		"move_stake": c.MoveStake, "lock_stake": c.LockStake, "lock": c.Lock,
	}
}

func commissionDigest(c types.Commission) string {
	f := commissionFields(c)
	keys := make([]string, 0, len(f))
	for k := range f {
		keys = append(keys, k)
	}
	sort.Strings(keys)
	var sb strings.Builder
	for _, k := range keys {
		sb.WriteString(f[k])
		sb.WriteByte(',')
	}
	return fmt.Sprintf("%x", fnv64(sb.String()))
}

func fnv64(s string) uint64 {
	h := uint64(14695981039346656037)
	for i := 0; i < len(s); i++ {
		h ^= uint64(s[i])
		h *= 1099511628211
	}
	return h
}

// Delta returns the lines describing the change from prev to cur: "=key\tvalue" and "-key".
func Delta(prev, cur Dump) []string {
	var out []string
	for k, v := range cur {
		if pv, ok := prev[k]; !ok || pv != v {
			out = append(out, "="+k+"\t"+v)
		}
	}
	for k := range prev {
		if _, ok := cur[k]; !ok {
			out = append(out, "-"+k)
		}
	}
	sort.Strings(out)
	return out
}

// priceToCommission converts the node's internal price record to the exported form (for a uniform digest).
func priceToCommission(p *commission.Price) types.Commission {
	var c types.Commission
	pv := reflect.ValueOf(p).Elem()
	cv := reflect.ValueOf(&c).Elem()
	for i := 0; i < cv.NumField(); i++ {
		name := cv.Type().Field(i).Name
		if name == "Coin" {
			c.Coin = uint64(p.Coin)
			continue
		}
		src := name
		if name == "CreateTicker7_10" {
			src = "CreateTicker7to10"
		}
		f := pv.FieldByName(src)
		if f.IsValid() {
			if b, ok := f.Interface().(*big.Int); ok && b != nil {
				cv.Field(i).SetString(b.String())
			}
		}
	}
	return c
}

func validatorLine(total, accum string, abs *types.BitArray, pk types.Pubkey) string {
	bits := ""
	if abs != nil {
		for i := 0; i < int(abs.Size()); i++ {
			if abs.GetIndex(i) {
				bits += "1"
			} else {
				bits += "0"
			}
		}
	}
	a := tmAddrOf(pk)
	return fmt.Sprintf("%s %s %s %x", total, accum, bits, a[:])
}
