package main

import (
	"fmt"
	"io/ioutil"
	"math/big"
	"os"
	"runtime/debug"
	"strings"
	"time"

	"github.com/MinterTeam/minter-go-node/cmd/utils"
	"github.com/MinterTeam/minter-go-node/config"
	"github.com/MinterTeam/minter-go-node/coreV2/minter"
	"github.com/MinterTeam/minter-go-node/coreV2/state"
	"github.com/MinterTeam/minter-go-node/coreV2/types"
	"github.com/tendermint/go-amino"
	abci "github.com/tendermint/tendermint/abci/types"
	tmlog "github.com/tendermint/tendermint/libs/log"
	tmproto "github.com/tendermint/tendermint/proto/tendermint/types"
	db "github.com/tendermint/tm-db"
)

// InitialHeight is the ABCI InitialHeight of every harness chain: above the LockStake gate (10197360).
const InitialHeight = 10200001

// Node wraps one in-process minter.Blockchain instance.
type Node struct {
	App          *minter.Blockchain
	Storage      *utils.Storage
	Cfg          *config.Config
	Home         string
	Disk         bool // goleveldb under Home (restartable) vs memdb
	Period       uint64
	ExpirePeriod uint64
	Height       uint64 // last begun height
	Dead         string // non-empty once a panic escaped an ABCI call
	InitVals     []abci.ValidatorUpdate // validator set answered by InitChain (what Tendermint starts with)
	stateDB      db.DB
	eventDB      db.DB
	snapDB       db.DB
	nextOrder    uint32
}

type NodeOpts struct {
	Disk         bool
	Period       uint64
	ExpirePeriod uint64
	KeepStates   int64
	InitialHeight int64 // ABCI InitialHeight (default: the package constant)
}

func tmpRoot() string {
	if d := os.Getenv("VERIF_TMP"); d != "" {
		return d
	}
	return os.TempDir()
}

func newCfg(home string, disk bool, keep int64) *config.Config {
	cfg := config.GetConfig(home)
	if disk {
		cfg.DBBackend = "goleveldb"
	} else {
		cfg.DBBackend = "memdb"
	}
	if keep > 0 {
		cfg.KeepLastStates = keep
	}
	return cfg
}

// NewNode creates a node and runs InitChain with the given genesis.
func NewNode(gen types.AppState, o NodeOpts) (n *Node, err error) {
	if o.Period == 0 {
		o.Period = 12
	}
	if o.ExpirePeriod == 0 {
		o.ExpirePeriod = 30
	}
	n = &Node{Disk: o.Disk, Period: o.Period, ExpirePeriod: o.ExpirePeriod}
	home, e := ioutil.TempDir(tmpRoot(), "verif-node-")
	if e != nil {
		return nil, e
	}
	n.Home = home
	_ = os.MkdirAll(home+"/data", 0o755)
	_ = os.MkdirAll(home+"/config", 0o755)
	if o.Disk {
		n.stateDB, e = db.NewGoLevelDB("state", home+"/data")
		if e != nil {
			return nil, e
		}
		n.eventDB, _ = db.NewGoLevelDB("events", home+"/data")
		n.snapDB, _ = db.NewGoLevelDB("snapshots", home+"/data")
	} else {
		n.stateDB, n.eventDB, n.snapDB = db.NewMemDB(), db.NewMemDB(), db.NewMemDB()
	}
	n.stateDB, n.eventDB = wrapNodeDB("state", n.stateDB), wrapNodeDB("events", n.eventDB) // write interception (mode_persist.go)
	n.Storage = utils.VerifNewStorage(home, "", n.eventDB, n.stateDB, n.snapDB)
	n.Cfg = newCfg(home, o.Disk, o.KeepStates)
	defer func() {
		if r := recover(); r != nil {
			err = fmt.Errorf("PANIC in InitChain: %v\n%s", r, debug.Stack())
		}
	}()
	n.App = minter.NewMinterBlockchain(n.Storage, n.Cfg, nil, n.Period, n.ExpirePeriod, tmlog.NewNopLogger())
	js, e := amino.MarshalJSON(gen)
	if e != nil {
		return nil, e
	}
	var updates []abci.ValidatorUpdate
	for _, v := range gen.Validators {
		updates = append(updates, abci.Ed25519ValidatorUpdate(v.PubKey.Bytes(), 1))
	}
	initH := int64(InitialHeight)
	if o.InitialHeight != 0 {
		initH = o.InitialHeight
	}
	ric := n.App.InitChain(abci.RequestInitChain{
		Time:          time.Unix(1700000000, 0).UTC(),
		ChainId:       "verif",
		Validators:    updates,
		InitialHeight: initH,
		AppStateBytes: js,
	})
	n.InitVals = ric.Validators
	n.Height = uint64(initH) - 1
	return n, nil
}

// Restart closes the node and reopens it from the same on-disk data (Disk nodes only).
func (n *Node) Restart() (err error) {
	if !n.Disk {
		return fmt.Errorf("restart needs a disk node")
	}
	defer func() {
		if r := recover(); r != nil {
			err = fmt.Errorf("PANIC in restart: %v\n%s", r, debug.Stack())
			n.Dead = err.Error()
		}
	}()
	n.App.VerifWaitSnapshots()
	if e := n.App.Close(); e != nil {
		return e
	}
	return n.reopen()
}

func (n *Node) reopen() error {
	var e error
	n.stateDB, e = db.NewGoLevelDB("state", n.Home+"/data")
	if e != nil {
		return e
	}
	n.eventDB, e = db.NewGoLevelDB("events", n.Home+"/data")
	if e != nil {
		return e
	}
	n.snapDB, e = db.NewGoLevelDB("snapshots", n.Home+"/data")
	if e != nil {
		return e
	}
	n.stateDB, n.eventDB = wrapNodeDB("state", n.stateDB), wrapNodeDB("events", n.eventDB) // write interception (mode_persist.go)
	n.Storage = utils.VerifNewStorage(n.Home, "", n.eventDB, n.stateDB, n.snapDB)
	n.App = minter.NewMinterBlockchain(n.Storage, n.Cfg, nil, n.Period, n.ExpirePeriod, tmlog.NewNopLogger())
	return nil
}

// Destroy closes everything and removes the home directory.
func (n *Node) Destroy() {
	func() {
		defer func() { recover() }()
		if n.App != nil {
			n.App.VerifWaitSnapshots()
			n.App.Close()
		}
	}()
	if n.Home != "" {
		os.RemoveAll(n.Home)
	}
}

func shortPanic(r interface{}) string {
	st := string(debug.Stack())
	// find first frame inside the repo below the panic
	site := ""
	lines := strings.Split(st, "\n")
	for i, l := range lines {
		if strings.Contains(l, "/repo/") && !strings.Contains(l, "verif") {
			site = strings.TrimSpace(l)
			if j := strings.Index(site, " +0x"); j > 0 {
				site = site[:j]
			}
			_ = i
			break
		}
	}
	msg := fmt.Sprintf("%v", r)
	if len(msg) > 200 {
		msg = msg[:200]
	}
	return strings.ReplaceAll(msg, "\n", " ") + " @ " + site
}

type Vote struct {
	Addr   types.TmAddress
	Signed bool
}

// Begin runs BeginBlock; returns panic description or "".
func (n *Node) Begin(h uint64, t time.Time, votes []Vote, byz []types.TmAddress) (pan string) {
	defer func() {
		if r := recover(); r != nil {
			pan = shortPanic(r)
			n.Dead = pan
		}
	}()
	var vi []abci.VoteInfo
	for _, v := range votes {
		a := v.Addr
		vi = append(vi, abci.VoteInfo{Validator: abci.Validator{Address: a[:], Power: 1}, SignedLastBlock: v.Signed})
	}
	var ev []abci.Evidence
	for _, b := range byz {
		a := b
		ev = append(ev, abci.Evidence{Type: abci.EvidenceType_DUPLICATE_VOTE, Validator: abci.Validator{Address: a[:], Power: 1}, Height: int64(h) - 1, Time: t})
	}
	n.Height = h
	n.App.BeginBlock(abci.RequestBeginBlock{
		Header:              tmproto.Header{Height: int64(h), Time: t},
		LastCommitInfo:      abci.LastCommitInfo{Votes: vi},
		ByzantineValidators: ev,
	})
	return ""
}

func (n *Node) Deliver(raw []byte) (resp abci.ResponseDeliverTx, pan string) {
	defer func() {
		if r := recover(); r != nil {
			pan = shortPanic(r)
			n.Dead = pan
		}
	}()
	resp = n.App.DeliverTx(abci.RequestDeliverTx{Tx: raw})
	return
}

func (n *Node) Check(raw []byte) (resp abci.ResponseCheckTx, pan string) {
	defer func() {
		if r := recover(); r != nil {
			pan = shortPanic(r)
			n.Dead = pan
		}
	}()
	n.App.VerifResetMempool()
	resp = n.App.VerifCheckTx(abci.RequestCheckTx{Tx: raw}, 1)
	return
}

func (n *Node) End(h uint64) (resp abci.ResponseEndBlock, pan string) {
	defer func() {
		if r := recover(); r != nil {
			pan = shortPanic(r)
			n.Dead = pan
		}
	}()
	resp = n.App.EndBlock(abci.RequestEndBlock{Height: int64(h)})
	return
}

func (n *Node) Commit() (hash []byte, pan string) {
	defer func() {
		if r := recover(); r != nil {
			pan = shortPanic(r)
			n.Dead = pan
		}
	}()
	r := n.App.Commit()
	return r.Data, ""
}

// Export re-reads the committed state from disk (like State.Export).
func (n *Node) Export() (st types.AppState, pan string) {
	defer func() {
		if r := recover(); r != nil {
			pan = shortPanic(r)
		}
	}()
	h := n.App.VerifAppDB().GetLastHeight()
	cs, err := state.NewCheckStateAtHeightV3(h, n.stateDB)
	if err != nil {
		return st, "export: " + err.Error()
	}
	st = cs.Export()
	return st, ""
}

func (n *Node) Live() *state.State { return n.App.VerifStateDeliver() }

func (n *Node) Validators() []Vote {
	var res []Vote
	for _, v := range n.App.CurrentState().Validators().GetValidators() {
		res = append(res, Vote{Addr: v.GetAddress(), Signed: true})
	}
	return res
}

func bi(s string) *big.Int {
	v, ok := new(big.Int).SetString(s, 10)
	if !ok {
		panic("bad bigint " + s)
	}
	return v
}

func pip(n int64) *big.Int { return new(big.Int).Mul(big.NewInt(n), bi("1000000000000000000")) }

// LiveNextOrderID returns an upper bound for order ids (from the last export).
func (n *Node) LiveNextOrderID() uint32 { return n.nextOrder }
