module verif/harness

go 1.17

require (
	github.com/MinterTeam/minter-go-node v0.0.0
	github.com/MinterTeam/node-grpc-gateway v1.6.2-0.20220413090743-53ffbb191668
	github.com/cosmos/cosmos-sdk v0.44.5
	github.com/cosmos/iavl v0.17.3
	github.com/tendermint/go-amino v0.16.0
	github.com/tendermint/tendermint v0.34.19
	github.com/tendermint/tm-db v0.6.6
	golang.org/x/crypto v0.0.0-20211202192323-5770296d904e
	google.golang.org/protobuf v1.27.1
)

require (
	github.com/Workiva/go-datastructures v1.0.53 // indirect
	github.com/beorn7/perks v1.0.1 // indirect
	github.com/btcsuite/btcd v0.22.0-beta // indirect
	github.com/cespare/xxhash/v2 v2.1.2 // indirect
	github.com/confio/ics23/go v0.6.6 // indirect
	github.com/davecgh/go-spew v1.1.1 // indirect
	github.com/go-kit/kit v0.12.0 // indirect
	github.com/go-kit/log v0.2.0 // indirect
	github.com/go-logfmt/logfmt v0.5.1 // indirect
	github.com/gogo/protobuf v1.3.3 // indirect
	github.com/golang/protobuf v1.5.2 // indirect
	github.com/golang/snappy v0.0.3 // indirect
	github.com/google/btree v1.0.0 // indirect
	github.com/google/orderedcode v0.0.1 // indirect
	github.com/gorilla/websocket v1.5.0 // indirect
	github.com/grpc-ecosystem/grpc-gateway v1.16.0 // indirect
	github.com/grpc-ecosystem/grpc-gateway/v2 v2.10.0 // indirect
	github.com/gtank/merlin v0.1.1 // indirect
	github.com/lib/pq v1.10.4 // indirect
	github.com/libp2p/go-buffer-pool v0.0.2 // indirect
	github.com/matttproud/golang_protobuf_extensions v1.0.1 // indirect
	github.com/mimoo/StrobeGo v0.0.0-20181016162300-f8f6d4d2b643 // indirect
	github.com/minio/highwayhash v1.0.2 // indirect
	github.com/pkg/errors v0.9.1 // indirect
	github.com/prometheus/client_golang v1.12.1 // indirect
	github.com/prometheus/client_model v0.2.0 // indirect
	github.com/prometheus/common v0.32.1 // indirect
	github.com/prometheus/procfs v0.7.3 // indirect
	github.com/rcrowley/go-metrics v0.0.0-20200313005456-10cdbea86bc0 // indirect
	github.com/rs/cors v1.8.2 // indirect
	github.com/syndtr/goleveldb v1.0.1-0.20200815110645-5c35d600f0ca // indirect
	golang.org/x/net v0.0.0-20220127200216-cd36cc0744dd // indirect
	golang.org/x/sys v0.0.0-20220114195835-da31bd327af9 // indirect
	golang.org/x/text v0.3.7 // indirect
	google.golang.org/genproto v0.0.0-20220317150908-0efb43f6373e // indirect
	google.golang.org/grpc v1.45.0 // indirect
)

replace github.com/MinterTeam/minter-go-node => /repo

replace github.com/gogo/protobuf => github.com/regen-network/protobuf v1.3.3-alpha.regen.1
